SPECIFICATION Spec
CONSTANTS
  Dev = "none"
  Alpha <- Alpha4
  MaxSize = 6
  MaxPair = 4
INVARIANT LawBest
INVARIANT LawWorst
INVARIANT LawBestIdx
INVARIANT LawWorstIdx
INVARIANT LawSortTrim
INVARIANT LawSort
INVARIANT LawGreedy
INVARIANT LawExtend
INVARIANT LawGroups
INVARIANT LawSizes
INVARIANT LawElitist
CHECK_DEADLOCK FALSE
