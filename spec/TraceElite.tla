----------------------------- MODULE TraceElite -----------------------------
(***************************************************************************)
(* C17 on long real runs of the optimizers classified structurally         *)
(* elitist: only the best cost of every generation is logged (signed dense *)
(* ranks, user's sign), so hundreds of 60-cycle runs stay cheap.  The      *)
(* action property ElitistMonotone of PopMachine.tla, evaluated on every   *)
(* consecutive pair, plus "best_solution is the best ever recorded".       *)
(***************************************************************************)
EXTENDS PopRel, Json, IOUtils, TLC
Recs == ndJsonDeserialize(IOEnv.TRACE_FILE)
VARIABLES i, bad
Unless(ok, clause) == IF ok THEN {} ELSE {clause}
Fails(r) ==
    Unless(\A k \in 1..(Len(r.bests) - 1) : ~BetterU(r.dir, r.bests[k], r.bests[k + 1]), "C17.mono")
    \cup Unless(\A k \in DOMAIN r.bests : ~BetterU(r.dir, r.bests[k], r.best), "C17.bestever")
Init == i = 1 /\ bad = {}
Step == i <= Len(Recs) /\ bad' = bad \cup {<<Recs[i].id, cl>> : cl \in Fails(Recs[i])} /\ i' = i + 1
Finish == /\ i = Len(Recs) + 1
          /\ JsonSerialize(IOEnv.VERDICT_FILE, [consumed |-> Len(Recs), bad |-> SetToSeq(bad)])
          /\ i' = i + 1 /\ UNCHANGED bad
Next == Step \/ Finish
Spec == Init /\ [][Next]_<<i, bad>>
=============================================================================
