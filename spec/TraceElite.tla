----------------------------- MODULE TraceElite -----------------------------
(***************************************************************************)
(* C17 on long real runs of the optimizers classified structurally         *)
(* elitist: only the best cost of every generation is logged (signed dense *)
(* ranks, user's sign), so hundreds of 60-cycle runs stay cheap.  The      *)
(* action property ElitistMonotone of PopMachine.tla, evaluated on every   *)
(* consecutive pair, plus "best_solution is the best ever recorded".       *)
(***************************************************************************)
EXTENDS PopRel, Json, IOUtils, TLC
Recs == ndJsonDeserialize(IOEnv.TRACE_FILE)
VARIABLES i, bad
Unless(ok, clause) == IF ok THEN {} ELSE {clause}
Agents(s) == [k \in DOMAIN s |-> [p |-> s[k][1], u |-> s[k][2]]]
FailsBest(r) ==      \* kind "best": best_solution against the last generation of a pooled-mode run (C03)
    LET last == Agents(r.last)  b == [p |-> r.best[1], u |-> r.best[2]]
    IN  Unless(\E k \in DOMAIN last : last[k].p = b.p /\ last[k].u = b.u, "C03.member")
        \cup Unless(\A k \in DOMAIN last : ~BetterU(r.dir, last[k].u, b.u), "C03.opt")
Fails(r) ==
    IF r.kind = "best" THEN FailsBest(r) ELSE
    Unless(\A k \in 1..(Len(r.bests) - 1) : ~BetterU(r.dir, r.bests[k], r.bests[k + 1]), "C17.mono")
    \cup Unless(\A k \in DOMAIN r.bests : ~BetterU(r.dir, r.bests[k], r.best), "C17.bestever")
Init == i = 1 /\ bad = {}
Step == i <= Len(Recs) /\ bad' = bad \cup {<<Recs[i].id, cl>> : cl \in Fails(Recs[i])} /\ i' = i + 1
Finish == /\ i = Len(Recs) + 1
          /\ JsonSerialize(IOEnv.VERDICT_FILE, [consumed |-> Len(Recs), bad |-> SetToSeq(bad)])
          /\ i' = i + 1 /\ UNCHANGED bad
Next == Step \/ Finish
Spec == Init /\ [][Next]_<<i, bad>>
=============================================================================
