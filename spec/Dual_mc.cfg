SPECIFICATION Spec
CONSTANTS
  N = 2
  MC = 2
  Kinds = {"greedy_each", "greedy_pop", "extend_trim", "replace_all"}
  FT <- FT1
  Dev = "none"
INVARIANT DualOK
INVARIANT TruthA
INVARIANT TruthB
CHECK_DEADLOCK FALSE
