------------------------------- MODULE PopRel -------------------------------
(***************************************************************************)
(* State predicates and frame conditions of one run of optimize(), at the  *)
(* level the properties C01, C02, C03, C05, C10, C15, C17 speak about.     *)
(* Constant-free: the exhaustive machine (PopMachine.tla) and the trace    *)
(* judge of real runs (TracePop.tla) use the SAME operators.               *)
(*                                                                         *)
(* An agent is a record [p, c]: p = position id, c = INTERNAL cost (the    *)
(* optimizer minimises internal costs; internal = Sign * user cost).       *)
(* A reported agent is [p, u, fit]: u = cost in the user's sign, fit =     *)
(* "fitness is the documented function of u" (numeric leaf).               *)
(* Costs are integers that preserve order, equality and negation (exact    *)
(* values in the model, signed dense ranks of the floats in traces).       *)
(* mem[p]  <=> position p is a member of the search space                  *)
(* fobj[p] =   the user's objective at p (user's sign)                     *)
(***************************************************************************)
EXTENDS Integers, Sequences, FiniteSets, SequencesExt

Sign(dir) == IF dir = "min" THEN 1 ELSE -1
BetterU(dir, a, b) == IF dir = "min" THEN a < b ELSE a > b      \* strictly better, user's sign

Costs(pop) == {pop[k].c : k \in DOMAIN pop}
MinOf(S) == CHOOSE x \in S : \A y \in S : x <= y
BestCost(pop) == MinOf(Costs(pop))                               \* internal costs: lower is better

\* C01 / C05
FeasiblePop(mem, pop) == \A k \in DOMAIN pop : mem[pop[k].p]
ArgsInSpace(mem, calls) == \A k \in DOMAIN calls : mem[calls[k]]

\* C02: an agent's internal cost is Sign * objective(position); its position was really evaluated in this run
CostTruthPop(dir, fobj, pop) == \A k \in DOMAIN pop : pop[k].c = Sign(dir) * fobj[pop[k].p]
EvaluatedPop(seen, pop) == \A k \in DOMAIN pop : seen[pop[k].p]

\* C10
SizeOK(sizecls, N, pop) == Len(pop) >= 1 /\ Len(pop) <= N /\ (sizecls = "exact" => Len(pop) = N)

\* C17 (elitist classes): the best internal cost never gets worse
Monotone(pop, pop2) == BestCost(pop2) <= BestCost(pop)

\* the frame condition every optimization_step must satisfy, whatever its update rule (StepGeneric of DESIGN.md)
StepFrame(dir, sizecls, N, elitist, mem, fobj, seen, pop, pop2) ==
    /\ SizeOK(sizecls, N, pop2)
    /\ FeasiblePop(mem, pop2)
    /\ CostTruthPop(dir, fobj, pop2)
    /\ EvaluatedPop(seen, pop2)
    /\ elitist => Monotone(pop, pop2)

\* C15 / C12-sign: generation k of the result is the population as it stood after cycle k, in the user's sign
Reported(dir, pop) == [k \in DOMAIN pop |-> [p |-> pop[k].p, u |-> Sign(dir) * pop[k].c]]
Strip(gen) == [k \in DOMAIN gen |-> [p |-> gen[k].p, u |-> gen[k].u]]
HistoryFaithful(dir, snaps, evo) ==
    /\ Len(evo) = Len(snaps)
    /\ \A g \in DOMAIN snaps : g \in DOMAIN evo => Strip(evo[g]) = Reported(dir, snaps[g])

\* C03: best_solution is a member of the last generation and nothing there is strictly better
BestIsOptimum(dir, last, best) ==
    /\ \E k \in DOMAIN last : last[k].p = best.p /\ last[k].u = best.u
    /\ \A k \in DOMAIN last : ~BetterU(dir, last[k].u, best.u)
=============================================================================
