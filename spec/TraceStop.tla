----------------------------- MODULE TraceStop ------------------------------
(***************************************************************************)
(* Judge of observed stop behaviour of the REAL optimize() (C04).          *)
(* One ndjson record per run:                                              *)
(*   mc, hasFe, hasEs, pat       the configuration                         *)
(*   lefe[j], dec[j]             projection of the observed float rates    *)
(*   steps, gens, nrates         optimization_step() calls, len(evolution),*)
(*                               len(rates)                                *)
(*   rate_ok                     every rate = |1 - mean fitness| of its    *)
(*                               generation (numeric leaf, harness)        *)
(*   script (optional, grid runs): the scripted rate levels; obs = observed*)
(*                               levels: must be the script's prefix       *)
(***************************************************************************)
EXTENDS StopRel, Json, IOUtils, TLC, SequencesExt

Recs == ndJsonDeserialize(IOEnv.TRACE_FILE)
VARIABLES i, bad
Unless(ok, clause) == IF ok THEN {} ELSE {clause}

Fails(r) ==
    LET C(j) == CritB(r.mc, r.hasFe, r.lefe, r.hasEs, r.pat, r.dec, j)
    IN  Unless(r.steps >= 1 /\ r.steps <= Len(r.lefe) /\ C(r.steps), "C04.early")      \* stopped although no criterion held
        \cup Unless(\A j \in 1..(r.steps - 1) : j > Len(r.lefe) \/ ~C(j), "C04.late")  \* ran past a cycle at which one held
        \cup Unless(r.steps <= r.mc, "C04.bounded")
        \cup Unless(r.gens = r.steps + 1 /\ r.nrates = r.steps, "C04.len")
        \cup Unless(r.rate_ok, "C04.rate")
        \cup Unless(r.kind # "grid" \/ (r.steps <= Len(r.script) /\ r.obs = SubSeq(r.script, 1, r.steps)
                                        /\ r.steps = First(r.mc, r.fe, r.es, r.script)), "C04.grid")

Init == i = 1 /\ bad = {}
Step == /\ i <= Len(Recs)
        /\ bad' = bad \cup {<<Recs[i].id, cl>> : cl \in Fails(Recs[i])}
        /\ i' = i + 1
Finish == /\ i = Len(Recs) + 1
          /\ JsonSerialize(IOEnv.VERDICT_FILE, [consumed |-> Len(Recs), bad |-> SetToSeq(bad)])
          /\ i' = i + 1
          /\ UNCHANGED bad
Next == Step \/ Finish
Spec == Init /\ [][Next]_<<i, bad>>
=============================================================================
