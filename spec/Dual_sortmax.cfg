SPECIFICATION Spec
CONSTANTS
  N = 2
  MC = 2
  Kinds = {"greedy_pop", "extend_trim"}
  FT <- FT1
  Dev = "sortmax"
INVARIANT DualOK
INVARIANT TruthA
INVARIANT TruthB
CHECK_DEADLOCK FALSE
