SPECIFICATION Spec
CONSTANTS
  Cfgs = {1, 2}
  Tasks = {1, 2}
  MaxLen = 4
  Dev = "privleak"
INVARIANT RunFunctional
INVARIANT CanConstructEmpty
INVARIANT NoConfigRefuses
INVARIANT SetConfigEquals
INVARIANT SetConfigRunEquals
PROPERTY ResultsImmutable
PROPERTY CallerUntouched
PROPERTY RefusedMeansNoConfig
PROPERTY BadCallRefused
CHECK_DEADLOCK FALSE
