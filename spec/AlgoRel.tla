------------------------------ MODULE AlgoRel -------------------------------
(***************************************************************************)
(* Refinements of the generic run machine for the loop's own bookkeeping   *)
(* and for individual algorithm skeletons - growth of the specification    *)
(* beyond the listed properties (DESIGN.md section 10).  Judged on real    *)
(* traces by TracePop.tla (clauses X.name); reported in the evidence as     *)
(* `extensions`, they never decide a listed property.                      *)
(*                                                                         *)
(*  X.cycle     the cycle counter seen by step k is k (StopRule!CycleIsStep*)
(*              bound to the code)                                         *)
(*  X.rates     when step k starts, exactly k - 1 rates and differences of *)
(*              this run have been recorded (StopRule: Len(rates) = steps) *)
(*  X.leader    the best agent an optimization_step sees is a best member  *)
(*              of the population it starts from                           *)
(*  X.slotwise  greedy-per-agent optimizers: slot i never gets worse       *)
(*  X.greywolf  (alpha, beta, gamma) are the three best of the population  *)
(*  X.pso       pbest[i] is the best position particle i has visited       *)
(*  X.bee       after the scout phase every trial counter is below limit   *)
(***************************************************************************)
EXTENDS SelectRel

\* pop, prev: sequences of internal costs of the population after / before the step
Slotwise(prev, pop) == Len(pop) = Len(prev) /\ \A k \in DOMAIN pop : pop[k] <= prev[k]

\* lead = <<position id, cost>> seen by the step; prev = sequence of <<position id, cost>> it starts from
LeaderOK(lead, prev) ==
    /\ \E k \in DOMAIN prev : prev[k] = lead
    /\ \A k \in DOMAIN prev : lead[2] <= prev[k][2]

\* leaders: three <<position id, cost>>; pop as above
GreyWolfOK(leaders, pop) ==
    LET costs == [k \in DOMAIN pop |-> pop[k][2]]
        n == IF Len(pop) < 3 THEN Len(pop) ELSE 3
    IN /\ Len(leaders) = n
       /\ \A j \in 1..n : \E k \in DOMAIN pop : pop[k] = leaders[j]
       /\ \A j \in 1..n : \A i \in 1..n : i < j => leaders[i][2] <= leaders[j][2]
       /\ \A k \in DOMAIN pop : \A j \in 1..n : pop[k][2] >= leaders[j][2] \/ \E i \in 1..n : leaders[i] = pop[k]

\* personal bests: index-aligned with the swarm; each is the cheaper of the previous personal best and the new particle
PsoOK(prevBest, pop, best) ==
    /\ Len(best) = Len(pop) /\ Len(prevBest) = Len(pop)
    /\ \A k \in DOMAIN pop : /\ best[k] \in {prevBest[k], pop[k]}
                              /\ best[k][2] <= prevBest[k][2] /\ best[k][2] <= pop[k][2]

BeeOK(trials, limit) == \A k \in DOMAIN trials : trials[k] >= 0 /\ trials[k] < limit
=============================================================================
