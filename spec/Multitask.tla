----------------------------- MODULE Multitask ------------------------------
(***************************************************************************)
(* Multitask.__init__ / execute as coded-shaped functions over all         *)
(* (n, m, modes) of the bounded space, against MultiRel (C20).             *)
(* Dev: "flatpair" (a per-pair tuple is kept flat and later indexed as     *)
(* [algorithm][task] - the pinned tree), "skiplast" (the last task of      *)
(* every algorithm is skipped), "onemode" (every pair runs in the first    *)
(* mode), "taskfirst" (a tuple of n = m values is read per task),          *)
(* "accumulate" (the dictionary of columns is not emptied between two      *)
(* algorithms), "trialzero" (trial ids counted from 0), "misfile" (the     *)
(* export pairs folders and tables in opposite orders).                    *)
(***************************************************************************)
EXTENDS MultiRel, TLC
CONSTANTS MaxN, MaxM, NT, ModeVals, Dev
VARIABLE c
Init == c \in {[kind |-> "pre", n |-> n, m |-> m, L |-> L] : n \in 1..MaxN, m \in 1..MaxM, L \in 0..(MaxN * MaxM)}
Next == c.kind = "pre" /\ \E md \in [1..c.L -> ModeVals] : c' = [kind |-> "case", n |-> c.n, m |-> c.m, modes |-> md]
Spec == Init /\ [][Next]_c

\* __check_input__ as intended: priority one, per-algorithm, per-task, per-pair
PickReading(n, m, L) ==
    IF L = 0 THEN "none" ELSE IF L = 1 THEN "one" ELSE IF L = n /\ ~(Dev = "taskfirst" /\ L = m) THEN "per_algorithm" ELSE IF L = m THEN "per_task"
    ELSE IF L = n * m THEN "per_pair" ELSE "invalid"
Accepts(n, m, modes) == PickReading(n, m, Len(modes)) # "invalid" /\ AllModes(modes)
ModeFor(n, m, modes, a, t) ==
    LET r == PickReading(n, m, Len(modes))
    IN IF Dev = "onemode" /\ Len(modes) > 0 THEN modes[1]
       ELSE IF Dev = "flatpair" /\ r = "per_pair" THEN modes[a]          \* flat tuple indexed by the algorithm only
       ELSE TableOf(r, n, m, modes)[a][t]
Calls(n, m, modes) ==
    LET mm == IF Dev = "skiplast" /\ m > 1 THEN m - 1 ELSE m
        pairs == [k \in 1..(n * mm * NT) |->
                    LET a == ((k - 1) \div (mm * NT)) + 1  t == (((k - 1) \div NT) % mm) + 1
                    IN <<a, t, ModeFor(n, m, modes, a, t), 0>>]
    IN pairs

\* execute(): per algorithm a dictionary column -> list of trial results, appended to _df2; export_results: folder a <- _df2[a]
ColumnsOf(a, m) == [t \in 1..m |-> <<a, t, [k \in 1..NT |-> <<IF Dev = "trialzero" THEN k - 1 ELSE k, t, a>>]>>]
RECURSIVE Accumulated(_, _)
Accumulated(a, m) == IF a = 0 THEN <<>> ELSE Accumulated(a - 1, m) \o ColumnsOf(a, m)
Tables(n, m) == [a \in 1..n |-> IF Dev = "accumulate" THEN Accumulated(a, m) ELSE ColumnsOf(a, m)]
Exported(n, m) == [a \in 1..n |-> Tables(n, m)[IF Dev = "misfile" THEN n - a + 1 ELSE a]]

LawTables == c.kind = "case" /\ MustAccept(c.n, c.m, c.modes) => TablesRight(c.n, c.m, NT, Tables(c.n, c.m))
LawExport == c.kind = "case" /\ MustAccept(c.n, c.m, c.modes) => TablesRight(c.n, c.m, NT, Exported(c.n, c.m))
LawAccept == c.kind = "case" => (Accepts(c.n, c.m, c.modes) <=> MustAccept(c.n, c.m, c.modes))
LawPairs == c.kind = "case" /\ MustAccept(c.n, c.m, c.modes) => EveryPairRuns(c.n, c.m, NT, Calls(c.n, c.m, c.modes))
LawModes == c.kind = "case" /\ MustAccept(c.n, c.m, c.modes) => ModesHonoured(c.n, c.m, c.modes, Calls(c.n, c.m, c.modes))
=============================================================================
