----------------------------- MODULE Multitask ------------------------------
(***************************************************************************)
(* Multitask.__init__ / execute as coded-shaped functions over all         *)
(* (n, m, modes) of the bounded space, against MultiRel (C20).             *)
(* Dev: "flatpair" (a per-pair tuple is kept flat and later indexed as     *)
(* [algorithm][task] - the pinned tree), "skiplast" (the last task of      *)
(* every algorithm is skipped), "onemode" (every pair runs in the first    *)
(* mode), "taskfirst" (a tuple of n = m values is read per task).                                                                  *)
(***************************************************************************)
EXTENDS MultiRel, TLC
CONSTANTS MaxN, MaxM, NT, ModeVals, Dev
VARIABLE c
Init == c \in {[kind |-> "pre", n |-> n, m |-> m, L |-> L] : n \in 1..MaxN, m \in 1..MaxM, L \in 0..(MaxN * MaxM)}
Next == c.kind = "pre" /\ \E md \in [1..c.L -> ModeVals] : c' = [kind |-> "case", n |-> c.n, m |-> c.m, modes |-> md]
Spec == Init /\ [][Next]_c

\* __check_input__ as intended: priority one, per-algorithm, per-task, per-pair
PickReading(n, m, L) ==
    IF L = 0 THEN "none" ELSE IF L = 1 THEN "one" ELSE IF L = n /\ ~(Dev = "taskfirst" /\ L = m) THEN "per_algorithm" ELSE IF L = m THEN "per_task"
    ELSE IF L = n * m THEN "per_pair" ELSE "invalid"
Accepts(n, m, modes) == PickReading(n, m, Len(modes)) # "invalid" /\ AllModes(modes)
ModeFor(n, m, modes, a, t) ==
    LET r == PickReading(n, m, Len(modes))
    IN IF Dev = "onemode" /\ Len(modes) > 0 THEN modes[1]
       ELSE IF Dev = "flatpair" /\ r = "per_pair" THEN modes[a]          \* flat tuple indexed by the algorithm only
       ELSE TableOf(r, n, m, modes)[a][t]
Calls(n, m, modes) ==
    LET mm == IF Dev = "skiplast" /\ m > 1 THEN m - 1 ELSE m
        pairs == [k \in 1..(n * mm * NT) |->
                    LET a == ((k - 1) \div (mm * NT)) + 1  t == (((k - 1) \div NT) % mm) + 1
                    IN <<a, t, ModeFor(n, m, modes, a, t), 0>>]
    IN pairs

LawAccept == c.kind = "case" => (Accepts(c.n, c.m, c.modes) <=> MustAccept(c.n, c.m, c.modes))
LawPairs == c.kind = "case" /\ MustAccept(c.n, c.m, c.modes) => EveryPairRuns(c.n, c.m, NT, Calls(c.n, c.m, c.modes))
LawModes == c.kind = "case" /\ MustAccept(c.n, c.m, c.modes) => ModesHonoured(c.n, c.m, c.modes, Calls(c.n, c.m, c.modes))
=============================================================================
