---------------------------- MODULE TraceDomain -----------------------------
(***************************************************************************)
(* Judge of what the REAL variable classes and Task methods of models.py   *)
(* returned (C13, C14).  One ndjson record per case of Domain.tla (or per  *)
(* seeded off-grid case), written by harness/c13.py with the value         *)
(* encoding of DomainRel.  Total verdicts.                                 *)
(***************************************************************************)
EXTENDS DomainRel, Json, IOUtils, TLC

Recs == ndJsonDeserialize(IOEnv.TRACE_FILE)
VARIABLES i, bad
Unless(ok, clause) == IF ok THEN {} ELSE {clause}

Def(j) == [t |-> j.t, lb |-> j.lb, ub |-> j.ub, n |-> j.n, kids |-> j.kids]

FailsScalar(r) ==
    LET d == Def(r.def)
    IN  Unless(~Finite(r.v) \/ InScalar(d, r.out), "C13.correct.domain")
        \cup Unless(~InScalar(d, r.v) \/ r.out = r.v, "C13.correct.fixpoint")
        \cup Unless(~Finite(r.v) \/ r.out2 = r.out, "C13.correct.idempotent")
        \cup Unless(~Finite(r.v) \/ r.typeok, "C13.correct.type")
        \cup Unless(r.rnd_ok, "C13.randomize")
        \cup Unless(BoundsOKCoord(d, r.bounds[1], r.bounds[2]), "C13.bounds")
        \cup Unless(d.t = "cont" \/ ~Finite(r.v) \/ DecodeRelDisc(d, r.out, r.dec), "C13.decode")

FailsPerm(r) ==
    Unless(IsPermOf(r.n, r.out), "C13.perm.domain")
    \cup Unless(~IsPermOf(r.n, PermValue(r.v)) \/ r.out = PermValue(r.v), "C13.perm.fixpoint")      \* r.v in half units
    \cup Unless(r.out2 = r.out, "C13.perm.idempotent")
    \cup Unless(DecodeRelPerm(r.n, r.out, r.dec), "C13.perm.decode")
    \cup Unless(r.rnd_ok, "C13.randomize")

FailsMulti(r) ==
    LET d == Def(r.def)
    IN  Unless(~r.raised /\ Len(r.out) = Len(d.kids), "C13.multi.shape")
        \cup Unless(r.raised \/ Len(r.out) # Len(d.kids) \/
                    \A k \in DOMAIN d.kids : ~Finite(r.v[k]) \/
                        (CorrectRelScalar(Def(d.kids[k]), r.v[k], r.out[k]) /\ r.out2[k] = r.out[k]), "C13.multi.correct")
        \cup Unless(r.rnd_ok, "C13.randomize")

FailsCtor(r) == Unless(r.raised = ~Accept(Def(r.def), r.mismatch), "C13.ctor")

\* ---- tasks (C14)
TDefs(r) == [k \in DOMAIN r.vars |-> Def(r.vars[k])]
FailsTask(r) ==
    LET task == TDefs(r)
        defs == FlattenDefs(task)
        D == Dim(task)
    IN  Unless(r.dim = D /\ r.nflat = D, "C14.dim")
        \cup Unless(~r.bounds_raised /\ r.bounds_eq_own /\ Len(r.lbs) = D /\ Len(r.ubs) = D /\
                    \A k \in 1..D : defs[k].t = "perm" \/ (BoundsOKCoord(defs[k], r.lbs[k], r.ubs[k]) /\ r.lbs[k] <= r.ubs[k]), "C14.bounds")
        \cup Unless(r.empty_len = D /\ r.empty_in, "C14.random")
        \cup Unless(r.correct_eq_own, "C14.correct")
        \cup Unless((r.pat = "nan" /\ r.correct_raised) \/
                    (/\ ~r.correct_raised /\ Len(r.y) = D
                     /\ \A k \in 1..D :
                        IF defs[k].t = "perm" THEN CorrectRelPerm(defs[k].n, r.x[k], r.y[k]) /\ r.y2[k] = r.y[k]
                        ELSE ~Finite(r.x[k]) \/ (CorrectRelScalar(defs[k], r.x[k], r.y[k]) /\ r.y2[k] = r.y[k])), "C14.correct")
        \cup Unless(r.pat = "nan" \/ r.correct_raised \/
                    (/\ ~r.tr_raised /\ r.keys_ok /\ Len(r.tr) = Len(task)
                     /\ \A k \in DOMAIN task :
                          /\ r.tr[k].aslist = (IsMulti(task[k]) \/ task[k].t = "perm")
                          /\ r.tr[k].entry = SubSeq(r.y, Offset(task, k) + 1, Offset(task, k) + Size(task[k]))), "C14.transform")

\* ---- Boolean projection of off-grid scalar cases (huge, subnormal, numpy scalars, ...)
FailsBool(r) ==
    Unless(~r.finite \/ r.out_in, "C13.correct.domain")
    \cup Unless(~r.v_in \/ r.out_eq_v, "C13.correct.fixpoint")
    \cup Unless(~r.finite \/ r.idem, "C13.correct.idempotent")
    \cup Unless(~r.finite \/ r.typeok, "C13.correct.type")

Fails(r) == CASE r.kind \in {"cont", "disc"} -> FailsScalar(r)
              [] r.kind = "perm" -> FailsPerm(r)
              [] r.kind = "multi" -> FailsMulti(r)
              [] r.kind = "ctor" -> FailsCtor(r)
              [] r.kind = "task" -> FailsTask(r)
              [] r.kind = "bool" -> FailsBool(r)
              [] OTHER -> {"C13.unknown_record"}

Init == i = 1 /\ bad = {}
Step == /\ i <= Len(Recs)
        /\ bad' = bad \cup {<<Recs[i].id, cl>> : cl \in Fails(Recs[i])}
        /\ i' = i + 1
Finish == /\ i = Len(Recs) + 1
          /\ JsonSerialize(IOEnv.VERDICT_FILE, [consumed |-> Len(Recs), bad |-> SetToSeq(bad)])
          /\ i' = i + 1
          /\ UNCHANGED bad
Next == Step \/ Finish
Spec == Init /\ [][Next]_<<i, bad>>
=============================================================================
