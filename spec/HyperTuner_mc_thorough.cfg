SPECIFICATION Spec
CONSTANTS
  MaxKeys = 3
  MaxVals = 3
  MaxSubs = 3
  NP = 4
  NT = 2
  Alpha = {0, 1, 2}
  Dev = "none"
INVARIANT LawLen
INVARIANT LawIndex
INVARIANT LawOutOfRange
INVARIANT LawDistinct
INVARIANT LawSelect
CHECK_DEADLOCK FALSE
