SPECIFICATION Spec
CONSTANTS
  Keys <- KeysAB
  Points <- Pts3
  NT = 2
  Dev = "resolvelast"
INVARIANT EveryPointOncePerTrial
INVARIANT RunSawItsPoint
INVARIANT ResolveUsesBest
PROPERTY Finishes
CHECK_DEADLOCK FALSE
