------------------------------ MODULE StopRel -------------------------------
(***************************************************************************)
(* The termination rule of optimize() (property C04), written              *)
(* DECLARATIVELY over a history of per-cycle convergence rates:            *)
(*   the run stops at the first cycle j at which a configured criterion    *)
(*   holds: j >= max_cycles, rate[j] <= fitness_error, or the last         *)
(*   `patience` CHANGES of the rate (changes exist from cycle 2 on) are    *)
(*   all decreases smaller than min_delta.                                 *)
(* Constant-level operators, shared by the machine (StopRule.tla), the     *)
(* run machine (PopMachine.tla) and the trace judges.                      *)
(***************************************************************************)
EXTENDS Integers, Sequences

None == -1
NoEs == <<0, 0>>            \* early_stopping = None is the pair with patience 0
HasEs(es) == es[1] > 0

\* Boolean form: lefe[j] <=> rate[j] <= fitness_error;  dec[j] <=> the change from cycle j-1 to j is a
\* decrease smaller than min_delta (dec[1] is irrelevant: there is no change before cycle 2).
CritMaxB(mc, j) == j >= mc
CritFeB(hasFe, lefe, j) == hasFe /\ lefe[j]
CritEsB(hasEs, pat, dec, j) == hasEs /\ j >= pat + 1 /\ \A i \in (j - pat + 1)..j : dec[i]
CritB(mc, hasFe, lefe, hasEs, pat, dec, j) ==
    CritMaxB(mc, j) \/ CritFeB(hasFe, lefe, j) \/ CritEsB(hasEs, pat, dec, j)

\* first cycle of a history of length n at which the criterion holds, 0 if none
FirstB(mc, hasFe, lefe, hasEs, pat, dec, n) ==
    IF \E j \in 1..n : CritB(mc, hasFe, lefe, hasEs, pat, dec, j)
    THEN CHOOSE j \in 1..n : /\ CritB(mc, hasFe, lefe, hasEs, pat, dec, j)
                             /\ \A h \in 1..(j-1) : ~CritB(mc, hasFe, lefe, hasEs, pat, dec, h)
    ELSE 0

\* Integer form: rates are integers (eighths), fe an integer or None, es = None or <<patience, min_delta>>
LeFeOf(rates, fe) == [j \in DOMAIN rates |-> fe # None /\ rates[j] <= fe]
DecOf(rates, es) == [j \in DOMAIN rates |->
    IF j = 1 \/ ~HasEs(es) THEN FALSE
    ELSE rates[j] - rates[j-1] < 0 /\ rates[j-1] - rates[j] < es[2]]
Crit(mc, fe, es, rates, j) ==
    CritB(mc, fe # None, LeFeOf(rates, fe), HasEs(es), es[1], DecOf(rates, es), j)
First(mc, fe, es, rates) ==
    FirstB(mc, fe # None, LeFeOf(rates, fe), HasEs(es), es[1], DecOf(rates, es), Len(rates))
=============================================================================
