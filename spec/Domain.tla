------------------------------- MODULE Domain -------------------------------
(***************************************************************************)
(* Exhaustive model of the variable types and of task composition          *)
(* (C13, C14).  The functional refinements of DomainRel are checked        *)
(* against the relational laws for every case of the bounded space; the    *)
(* same cases (state dump) are fed to the real classes of models.py and    *)
(* the answers judged by TraceDomain.tla.                                  *)
(* Dev selects named deviations that must break a law:                     *)
(*   "argsort"    PermutationVariable.correct = argsort (the pinned tree)  *)
(*   "nanpass"    continuous correct lets NaN through and NaN counted as   *)
(*                an input the law covers                                  *)
(*   "transposed" a multi-variable's bounds come back as a list of pairs   *)
(*   "unwrap1"    transform_solution unwraps a size-1 slice before decode  *)
(***************************************************************************)
EXTENDS DomainRel, TLC

CONSTANTS Dev, MaxTask

Lo == -2
Hi == 4
GridProbes == {2 * x : x \in (Lo - 2)..(Hi + 2)} \cup {-3, -1, 1, 3, 5}      \* integers and some halves
Probes == GridProbes \cup Specials
ContDefs == {Cont(2 * a, 2 * b) : a \in Lo..Hi, b \in Lo..Hi}            \* incl. inverted and equal bounds
DiscDefs == {Disc(n) : n \in 1..4}
PermVals(n) == [1..n -> 0..(2 * n)]      \* candidates in HALF units: 0, 0.5, ..., n (ties, fractions, members, non-members)
ValidConts == {Cont(-4, 0), Cont(0, 2), Cont(-2, 8)}
SmallProbes == {-6, -1, 0, 1, 2, 3, 20, NAN}

CorrectScalar(d, v) ==
    IF d.t = "cont" THEN (IF Dev = "nanpass" THEN CorrectContAsCoded(d, v) ELSE CorrectContIntended(d, v))
    ELSE CorrectDiscIntended(d, v)
CorrectPerm(v) == IF Dev = "argsort" THEN CorrectPermArgsort(v) ELSE CorrectPermIntended(v)
DecodePerm(c) == CorrectPerm(c)           \* decode = labels[correct(value)]
Covered(v) == IF Dev = "nanpass" THEN TRUE ELSE Finite(v)

\* palette of variable definitions for task composition
Palette == << Cont(0, 4), Cont(-2, 2),
              Multi("contmulti", <<Cont(0, 2)>>), Multi("contmulti", <<Cont(-2, 0), Cont(0, 8)>>),
              Multi("multiobj", <<Cont(0, 2), Cont(-4, 4)>>),
              Disc(2), Disc(3),
              Multi("discmulti", <<Disc(2)>>), Multi("discmulti", <<Disc(2), Disc(3)>>),
              Multi("discmulti", <<Disc(3), Disc(2), Disc(4)>>),
              Multi("bin", <<Disc(2)>>), Multi("bin", <<Disc(2), Disc(2)>>),
              Perm(3) >>
Patterns == {"low", "high", "inside", "frac", "stagger", "nan", "edge"}
\* the probe value of coordinate i under a pattern
PatVal(p, i) == CASE p = "low" -> -20 [] p = "high" -> 40 [] p = "inside" -> 0 [] p = "frac" -> 1
                  [] p = "stagger" -> (<<-20, 1, 2, 40, 0>>)[((i - 1) % 5) + 1]
                  [] p = "nan" -> IF i % 2 = 1 THEN NAN ELSE 2
                  [] p = "edge" -> (<<0, 2, 4, -2, 8>>)[((i - 1) % 5) + 1]
PermPat(p, n) == CASE p = "low" -> [k \in 1..n |-> n - k]
                   [] p = "high" -> [k \in 1..n |-> k - 1]
                   [] p = "stagger" -> [k \in 1..n |-> (k * 2) % n]        \* not a permutation for even n
                   [] OTHER -> [k \in 1..n |-> (k + 1) % n]               \* a cyclic shift (not an involution for n = 3)

VARIABLE c
Init == c \in {[kind |-> "pre", fam |-> f, head |-> h] :
                f \in {"cont", "disc", "perm", "ctor", "multi", "task"}, h \in 1..Len(Palette)}

NextCont == c.fam = "cont" /\ c.head <= 7 /\ \E d \in ContDefs, v \in Probes :
                d.lb = 2 * (Lo + c.head - 1) /\ d.lb < d.ub /\ c' = [kind |-> "cont", def |-> d, v |-> v]
NextDisc == c.fam = "disc" /\ c.head <= 4 /\ \E v \in Probes : c' = [kind |-> "disc", def |-> Disc(c.head), v |-> v]
NextPerm == c.fam = "perm" /\ c.head <= 4 /\ \E v \in PermVals(c.head) : c' = [kind |-> "perm", n |-> c.head, v |-> v]
\* constructor cases: scalar definitions and multi-variables with 0..3 children, valid or not
KidSeqs(S) == UNION {[1..k -> S] : k \in 0..3}
NextCtor == c.fam = "ctor" /\
    \/ c.head = 1 /\ \E d \in ContDefs : c' = [kind |-> "ctor", def |-> d, mismatch |-> FALSE]
    \/ c.head = 2 /\ \E ks \in KidSeqs({Cont(-2, 0), Cont(0, 0), Cont(2, 0), Cont(0, 2)}), t \in {"contmulti", "multiobj"}, mm \in BOOLEAN :
                        c' = [kind |-> "ctor", def |-> Multi(t, ks), mismatch |-> mm]
    \/ c.head = 3 /\ \E ks \in KidSeqs({Disc(1), Disc(2), Disc(3)}) : c' = [kind |-> "ctor", def |-> Multi("discmulti", ks), mismatch |-> FALSE]
    \/ c.head = 4 /\ \E n \in -1..3 : c' = [kind |-> "ctor", def |-> [Multi("bin", <<>>) EXCEPT !.n = n], mismatch |-> FALSE]
    \/ c.head = 5 /\ \E n \in 1..3 : c' = [kind |-> "ctor", def |-> Perm(n), mismatch |-> FALSE]
NextMulti == c.fam = "multi" /\
    \/ c.head = 1 /\ \E k \in 1..3 : \E ks \in [1..k -> ValidConts], vs \in [1..k -> SmallProbes], t \in {"contmulti", "multiobj"} :
                        c' = [kind |-> "multi", def |-> Multi(t, ks), v |-> vs]
    \/ c.head = 2 /\ \E k \in 1..3 : \E ks \in [1..k -> {Disc(1), Disc(2), Disc(3)}], vs \in [1..k -> SmallProbes] :
                        c' = [kind |-> "multi", def |-> Multi("discmulti", ks), v |-> vs]
    \/ c.head = 3 /\ \E k \in 1..3 : \E vs \in [1..k -> SmallProbes] :
                        c' = [kind |-> "multi", def |-> Multi("bin", [j \in 1..k |-> Disc(2)]), v |-> vs]
NextTask == c.fam = "task" /\ \E k \in 1..MaxTask : \E idx \in [1..k -> 1..Len(Palette)], p \in Patterns :
                idx[1] = c.head /\ c' = [kind |-> "task", vars |-> [j \in 1..k |-> Palette[idx[j]]], pat |-> p]
Next == c.kind = "pre" /\ (NextCont \/ NextDisc \/ NextPerm \/ NextCtor \/ NextMulti \/ NextTask)
Spec == Init /\ [][Next]_c

-----------------------------------------------------------------------------
(* Laws (C13)                                                              *)
LawCorrectScalar == c.kind \in {"cont", "disc"} /\ Covered(c.v) =>
    LET out == CorrectScalar(c.def, c.v)
    IN CorrectRelScalar(c.def, c.v, out) /\ CorrectScalar(c.def, out) = out
LawCorrectPerm == c.kind = "perm" =>
    LET out == CorrectPerm(c.v)
    IN CorrectRelPermH(c.n, c.v, out) /\ CorrectPerm(out) = out
LawDecode ==
    /\ c.kind = "disc" /\ Covered(c.v) => LET out == CorrectScalar(c.def, c.v) IN DecodeRelDisc(c.def, out, out \div 2)
    /\ c.kind = "perm" => LET out == CorrectPerm(c.v) IN DecodeRelPerm(c.n, out, DecodePerm(out))
\* what the objective is evaluated on (corrected twice on the way: initial_solution and solve), what is stored
\* (corrected once) and what transform_solution decodes from the stored position denote the same arrangement
PermConsistency == c.kind = "perm" =>
    LET stored == CorrectPerm(c.v)  evaluated == CorrectPerm(stored)  decoded == DecodePerm(stored)
    IN evaluated = stored /\ decoded = stored
LawMulti == c.kind = "multi" =>
    \A k \in DOMAIN c.v : Covered(c.v[k]) =>
        LET d == c.def.kids[k]  out == CorrectScalar(d, c.v[k])
        IN CorrectRelScalar(d, c.v[k], out) /\ CorrectScalar(d, out) = out

(* Laws (C14) on the modelled task                                        *)
Position(task, p) ==
    LET defs == FlattenDefs(task)
    IN [i \in DOMAIN defs |-> IF defs[i].t = "perm" THEN PermPat(p, defs[i].n) ELSE PatVal(p, i)]
CorrectCoord(d, x) == IF d.t = "perm" THEN CorrectPerm(x) ELSE CorrectScalar(d, x)
CorrectSolution(task, x) == LET defs == FlattenDefs(task) IN [i \in DOMAIN defs |-> CorrectCoord(defs[i], x[i])]
InCoord(d, x) == IF d.t = "perm" THEN IsPermOf(d.n, x) ELSE InScalar(d, x)
InSpace(task, x) == LET defs == FlattenDefs(task) IN Len(x) = Len(defs) /\ \A i \in DOMAIN defs : InCoord(defs[i], x[i])
\* transform: one entry per declared variable; entry k = decoded slice (a sequence for multi-variables, even of size 1)
TransformRaises(task, k) == Dev = "unwrap1" /\ IsMulti(task[k]) /\ Size(task[k]) = 1
TransformEntry(task, x, k) ==
    LET d == task[k]  off == Offset(task, k)
    IN SubSeq(x, off + 1, off + Size(d))
DimLaw == c.kind = "task" => Len(FlattenDefs(c.vars)) = Dim(c.vars) /\ Len(Position(c.vars, c.pat)) = Dim(c.vars)
CorrectSolutionLaw == c.kind = "task" /\ c.pat # "nan" =>
    LET x == Position(c.vars, c.pat)  y == CorrectSolution(c.vars, x)
    IN InSpace(c.vars, y) /\ CorrectSolution(c.vars, y) = y /\ (InSpace(c.vars, x) => y = x)
TransformLaw == c.kind = "task" /\ c.pat # "nan" =>
    LET y == CorrectSolution(c.vars, Position(c.vars, c.pat))
    IN /\ \A k \in DOMAIN c.vars : ~TransformRaises(c.vars, k) /\ Len(TransformEntry(c.vars, y, k)) = Size(c.vars[k])
       /\ Sum([k \in DOMAIN c.vars |-> Len(TransformEntry(c.vars, y, k))]) = Dim(c.vars)
\* bounds: the modelled get_bounds concatenates per-variable bounds
BoundsOf(task) ==
    LET defs == FlattenDefs(task)
    IN [i \in DOMAIN defs |->
          IF defs[i].t = "cont" THEN <<defs[i].lb, defs[i].ub>>
          ELSE IF Dev = "transposed" /\ i = 1 /\ Len(defs) >= 2 /\ defs[2].t = "disc" THEN <<0, 0>>      \* (lb1, ub1) read as (lbs)
          ELSE <<0, 2 * (defs[i].n - 1)>>]
BoundsLaw == c.kind = "task" =>
    LET defs == FlattenDefs(c.vars)  b == BoundsOf(c.vars)
    IN Len(b) = Dim(c.vars) /\ \A i \in DOMAIN defs : (defs[i].t = "perm" \/ (BoundsOKCoord(defs[i], b[i][1], b[i][2]) /\ b[i][1] <= b[i][2]))
=============================================================================
