SPECIFICATION Spec
CONSTANTS
  N = 2
  MC = 2
  Kinds = {"greedy_each", "fitness_leader"}
  FT <- FT1
  Dev = "none"
INVARIANT DualOK
INVARIANT TruthA
INVARIANT TruthB
CHECK_DEADLOCK FALSE
