----------------------------- MODULE PopMachine -----------------------------
(***************************************************************************)
(* One run of OptimizationAbstract.optimize() as a state machine           *)
(* (abstract.py:195-257), one action per critical section:                 *)
(*   Enter        validate, seed, before_initialization, _init_population, *)
(*                first snapshot, special_agents                           *)
(*   Step(kind)   optimization_step(): the 84 update rules are abstracted  *)
(*                into the replacement primitives they are built from      *)
(*                (greedy per agent, greedy on sorted populations,         *)
(*                extend-and-trim, replace-all, shrink) fed with arbitrary *)
(*                raw candidates that go through the agent factory         *)
(*                (_init_agent: correct, evaluate (corrects again), sign)  *)
(*   Snapshot     evolution.append(Population(...)) + special_agents       *)
(*   Check        __error_check__ / __should_stop__ (rule: StopRule.tla)   *)
(*   Return       OptimizationResult(...): sign restoration of best        *)
(* Properties: C01 Feasible, C05 ArgsInSpace, C02 CostTruth, C03           *)
(* BestIsOptimum, C10 SizeOK, C15 HistoryAppendOnly/HistoryFaithful, C17   *)
(* ElitistMonotone, and "every step kind satisfies the generic frame       *)
(* condition StepFrame" - the condition real runs are judged by.           *)
(* Dev switches on named deviations; each must break a property.           *)
(***************************************************************************)
EXTENDS PopRel, TLC

CONSTANTS N, Dir, MC,
          Kinds,      \* enabled step kinds
          FT,         \* objective table: position -> value (user's sign)
          Dev         \* "none" | "nanpass" | "bypass" | "mutate" | "stale" | "signslip" | "wrongbest" | "dropagent" | "inverted"

FT1 == <<2, -1, 2>>        \* ties and a negative value
FT2 == <<0, 3, -2>>
FT3 == <<1000, -1, -1000>>   \* 1000 / -1000 stand for an objective that is +infinity / -infinity at a point of the space

\* positions 1..3 are the search space; raw candidates 4 (below), 5 (above), 6 (NaN) are outside
Space == {1, 2, 3}
Raw == 1..6
Pos == 1..6
Corr(r) == CASE r = 4 -> 1 [] r = 5 -> 3 [] r = 6 -> (IF Dev = "nanpass" THEN 6 ELSE 1) [] OTHER -> r
F(p) == IF p \in DOMAIN FT THEN FT[p] ELSE 0
mem == [p \in Pos |-> p \in Space]
fobj == [p \in Pos |-> F(p)]

VARIABLES pc, pop, snaps, evo, calls, steps, best,
          act       \* history variable: <<kind, raw candidates>> of Enter and of every Step (hidden from the fingerprint by VIEW)
vars == <<pc, pop, snaps, evo, calls, steps, best, act>>
view == <<pc, pop, snaps, evo, calls, steps, best>>
seen == [p \in Pos |-> p \in calls]

\* the agent factory: Task.initial_solution corrects, Task.solve corrects AGAIN and evaluates
Evaluated(r) == Corr(Corr(r))
InitAgent(r) == IF Dev = "bypass" /\ r \in {4, 5} THEN [p |-> r, c |-> Sign(Dir) * F(r)]        \* Agent(position=raw) built directly
                ELSE [p |-> Corr(r), c |-> Sign(Dir) * F(Evaluated(r))]
ArgOf(r) == IF Dev = "bypass" /\ r \in {4, 5} THEN Corr(r) ELSE Evaluated(r)

ReportedAsCoded(p) == [k \in DOMAIN p |-> [p |-> p[k].p, u |-> (IF Dev = "signslip" THEN 1 ELSE Sign(Dir)) * p[k].c]]

ByCost(a, b) == a.c < b.c
Sorted(p) == SortSeq(p, ByCost)
Trim(p, n) == SubSeq(p, 1, IF Len(p) < n THEN Len(p) ELSE n)
Pick(old, new) == IF (IF Dev = "inverted" THEN new.c > old.c ELSE new.c < old.c) THEN new ELSE old

Init == /\ pc = "enter" /\ pop = <<>> /\ snaps = <<>> /\ evo = <<>> /\ calls = {} /\ steps = 0
        /\ best = [p |-> 1, u |-> 0] /\ act = <<>>

Enter == /\ pc = "enter"
         /\ \E rs \in [1..N -> Raw] :
               /\ pop' = [k \in 1..N |-> InitAgent(rs[k])]
               /\ calls' = {ArgOf(rs[k]) : k \in 1..N}
               /\ act' = <<<<"enter", rs>>>>
         /\ snaps' = <<pop'>> /\ evo' = <<ReportedAsCoded(pop')>>
         /\ pc' = "run" /\ UNCHANGED <<steps, best>>

NewPop(rs) == [k \in DOMAIN rs |-> InitAgent(rs[k])]
StepKind(kind, rs) ==
    LET new == NewPop(rs)
    IN CASE kind = "greedy_each" -> Len(rs) = Len(pop) /\ pop' = [k \in DOMAIN pop |-> Pick(pop[k], new[k])]
         [] kind = "greedy_pop"  -> Len(rs) = Len(pop) /\
                                    pop' = [k \in DOMAIN pop |-> Pick(Sorted(pop)[k], Sorted(new)[k])]
         [] kind = "extend_trim" -> pop' = Trim(Sorted(pop \o new), IF Dev = "dropagent" THEN N - 1 ELSE N)
         [] kind = "replace_all" -> Len(rs) = Len(pop) /\ pop' = new
         [] kind = "replace_trim" -> Len(rs) >= N /\ pop' = Trim(Sorted(new), N)
         [] kind = "shrink"      -> Len(pop) > 1 /\ Len(rs) = 1 /\ pop' = Trim(Sorted(pop), Len(pop) - 1)
         [] OTHER -> FALSE

Step == /\ pc = "run"
        /\ \E kind \in Kinds : \E m \in 1..(N + 1) : \E rs \in [1..m -> Raw] :
              /\ StepKind(kind, rs)
              /\ calls' = calls \cup {ArgOf(rs[k]) : k \in 1..m}
              /\ act' = Append(act, <<kind, rs>>)
        /\ steps' = steps + 1
        /\ pc' = "snap" /\ UNCHANGED <<snaps, evo, best>>

\* deviations on the step path
StepMutate ==       \* an agent shared with the recorded history is updated in place (position moved, cost kept: stale)
    /\ pc = "run" /\ Dev \in {"mutate", "stale"} /\ Len(pop) >= 1
    /\ \E q \in Space \ {pop[1].p} :
          /\ pop' = [pop EXCEPT ![1] = [p |-> q, c |-> (IF Dev = "stale" THEN pop[1].c ELSE Sign(Dir) * F(q))]]
          /\ calls' = calls \cup {q}
          /\ evo' = IF Dev = "mutate"                        \* generations hold the same agent objects (min tasks)
                    THEN [evo EXCEPT ![Len(evo)][1] = [p |-> q, u |-> Sign(Dir) * pop'[1].c]]
                    ELSE evo
    /\ steps' = steps + 1 /\ pc' = "snap" /\ act' = Append(act, <<"mutate", <<>>>>) /\ UNCHANGED <<snaps, best>>

Snapshot == /\ pc = "snap"
            /\ snaps' = Append(snaps, pop) /\ evo' = Append(evo, ReportedAsCoded(pop))
            /\ pc' = "check" /\ UNCHANGED <<pop, calls, steps, best, act>>

\* the stop decision is StopRule's business; here any decision consistent with the cycle bound
Check == /\ pc = "check"
         /\ \/ pc' = "return"
            \/ steps < MC /\ pc' = "run"
         /\ UNCHANGED <<pop, snaps, evo, calls, steps, best, act>>

BestOf(p) == LET s == Sorted(p) IN IF Dev = "wrongbest" THEN s[Len(s)] ELSE s[1]
Return == /\ pc = "return"
          /\ best' = [p |-> BestOf(pop).p, u |-> Sign(Dir) * BestOf(pop).c]
          /\ pc' = "done" /\ UNCHANGED <<pop, snaps, evo, calls, steps, act>>

Next == Enter \/ Step \/ StepMutate \/ Snapshot \/ Check \/ Return
Spec == Init /\ [][Next]_vars /\ WF_vars(Next)

-----------------------------------------------------------------------------
Elitist == Kinds \subseteq {"greedy_each", "greedy_pop", "extend_trim"}
SizeCls == IF "shrink" \in Kinds THEN "variable" ELSE "exact"

Feasible == /\ FeasiblePop(mem, pop)
            /\ \A g \in DOMAIN evo : \A k \in DOMAIN evo[g] : mem[evo[g][k].p]
            /\ pc = "done" => mem[best.p]                                          \* C01
ArgsOK == \A p \in calls : mem[p]                                                  \* C05
CostTruth == /\ CostTruthPop(Dir, fobj, pop) /\ EvaluatedPop(seen, pop)
             /\ \A g \in DOMAIN evo : \A k \in DOMAIN evo[g] : evo[g][k].u = fobj[evo[g][k].p]
             /\ pc = "done" => best.u = fobj[best.p]                               \* C02
BestOK == pc = "done" => BestIsOptimum(Dir, evo[Len(evo)], best)                   \* C03
SizeInv == pc \in {"snap", "check", "return", "done"} => SizeOK(SizeCls, N, pop)   \* C10
HistoryOK == pc \in {"run", "check", "return", "done"} => HistoryFaithful(Dir, snaps, evo)   \* C15
HistoryAppendOnly == [][IsPrefix(evo, evo')]_vars                                  \* C15
EvoLen == pc \in {"check", "return", "done"} => Len(evo) = steps + 1               \* C04
ElitistMonotone == [][(pc = "run" /\ pc' = "snap" /\ Elitist) => Monotone(pop, pop')]_vars          \* C17
BestEver == (pc = "done" /\ Elitist) => \A g \in DOMAIN evo : \A k \in DOMAIN evo[g] : ~BetterU(Dir, evo[g][k].u, best.u)
\* every step kind satisfies the generic frame condition that real optimization_step()s are judged by
StepRefinesFrame == [][(pc = "run" /\ pc' = "snap") =>
                        StepFrame(Dir, SizeCls, N, Elitist, mem, fobj, [p \in Pos |-> p \in calls'], pop, pop')]_vars
Terminates == <>(pc = "done")
=============================================================================
