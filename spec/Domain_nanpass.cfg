SPECIFICATION Spec
CONSTANTS
  Dev = "nanpass"
  MaxTask = 2
INVARIANT LawCorrectScalar
INVARIANT LawCorrectPerm
INVARIANT LawDecode
INVARIANT PermConsistency
INVARIANT LawMulti
INVARIANT DimLaw
INVARIANT CorrectSolutionLaw
INVARIANT TransformLaw
INVARIANT BoundsLaw
CHECK_DEADLOCK FALSE
