------------------------------ MODULE Instance ------------------------------
(***************************************************************************)
(* Life cycle of ONE optimizer object and of the process around it         *)
(* (C07 reproducibility, C08 independence of the instance's history,       *)
(* C09 caller's objects untouched, C18 uniform construction API).          *)
(*                                                                         *)
(* A run is abstracted to the VALUE it returns.  The intended design makes *)
(* that value a function of  key = <<configuration, task, seed>>  only:    *)
(* optimize() seeds numpy from task.seed at entry, draws from numpy only,  *)
(* and re-initialises its per-run bookkeeping (cycle counter, rates) and   *)
(* the algorithm's private adaptive state.  Everything else a run could    *)
(* read - the bookkeeping left by an earlier run, private state, the       *)
(* numpy stream position, the stdlib generator - is modelled explicitly,   *)
(* and each named deviation lets the result depend on one of them.         *)
(* `trace` is a history variable: every state carries the call history     *)
(* that led to it; the dumped states are the histories replayed into the   *)
(* 84 real classes (harness/instance.py).                                  *)
(***************************************************************************)
EXTENDS Integers, Sequences, FiniteSets, TLC

CONSTANTS Cfgs,       \* valid configuration values, e.g. {1, 2}
          Tasks,      \* task values (a task carries its seed)
          MaxLen,     \* bound on the call history
          Dev         \* "none" | "noreset" | "privleak" | "usestd" | "seedless" | "writescfg" | "ctorderef" | "cachector" | "aliasrates" | "latecheck"

None == 0
Bad == -1             \* an out-of-range parameter dictionary

VARIABLES cfg,        \* the instance's configuration (None before it has one)
          cached,     \* configuration-derived values cached by the constructor (deviation "cachector")
          callerCfg,  \* value of the configuration object the caller passed (None if none)
          book,       \* bookkeeping left on the instance: 0 = as constructed, n = after n runs
          priv,       \* private adaptive state: 0 = fresh, else the key hash of the run that left it
          npRng,      \* numpy stream: 0 = untouched, >0 seeded/perturbed marker
          stdRng,     \* stdlib generator marker
          hist,       \* sequence of [key, result] of all completed runs of this class in this model
          alive,      \* an instance exists
          last,       \* outcome of the last call: "ok" | "ValueError" | "ValidationError" | "TypeError" | "-"
          trace       \* history variable: sequence of <<action, argument>>
vars == <<cfg, cached, callerCfg, book, priv, npRng, stdRng, hist, alive, last, trace>>

Log(a, x) == trace' = Append(trace, <<a, x>>)
Room == Len(trace) < MaxLen

Init == /\ cfg = None /\ cached = None /\ callerCfg = None /\ book = 0 /\ priv = 0 /\ npRng = 0 /\ stdRng = 0
        /\ hist = <<>> /\ alive = FALSE /\ last = "-" /\ trace = <<>>

\* constructing an optimizer, with or without a configuration (also: a Fresh instance of the same class)
Construct(c) ==
    /\ Room
    /\ IF Dev = "ctorderef" /\ c = None
       THEN last' = "TypeError" /\ alive' = FALSE /\ UNCHANGED <<cfg, cached, callerCfg, book, priv>>
       ELSE /\ last' = "ok" /\ alive' = TRUE /\ cfg' = c /\ cached' = c /\ callerCfg' = c /\ book' = 0 /\ priv' = 0
    /\ UNCHANGED <<npRng, stdRng, hist>> /\ Log("Construct", c)

\* set_config_parameters(d): d is a valid dictionary (its value) or Bad
SetConfig(d) ==
    /\ Room /\ alive
    /\ IF d = Bad THEN last' = "ValidationError" /\ UNCHANGED cfg
       ELSE last' = "ok" /\ cfg' = d
    /\ UNCHANGED <<cached, callerCfg, book, priv, npRng, stdRng, hist, alive>> /\ Log("SetConfig", d)

\* what a run's result may depend on
Effective == IF Dev = "cachector" /\ cached # None THEN cached ELSE cfg
Extra == CASE Dev = "noreset" -> <<"book", book>>
           [] Dev = "privleak" -> <<"priv", priv>>
           [] Dev = "usestd" -> <<"std", stdRng>>
           [] Dev = "seedless" -> <<"np", npRng>>
           [] OTHER -> <<>>
Result(t) == <<Effective, t, Extra>>
Key(t) == <<cfg, t>>

Optimize(t) ==
    /\ Room /\ alive
    /\ IF cfg = None
       THEN last' = "ValueError" /\ UNCHANGED <<cfg, callerCfg, book, priv, npRng, stdRng, hist>>     \* refused, nothing changes
       ELSE /\ last' = "ok"
            /\ hist' = (IF Dev = "aliasrates" /\ Len(hist) > 0          \* a result already returned is rewritten by this run
                        THEN [hist EXCEPT ![Len(hist)].result = <<hist[Len(hist)].result[1], 0 - 1, <<>>>>] ELSE hist)
                       \o <<[key |-> Key(t), result |-> Result(t)]>>
            /\ book' = book + 1
            /\ priv' = t
            /\ npRng' = 100 + t                      \* the stream is left wherever the seeded run ended
            /\ stdRng' = IF Dev = "usestd" THEN stdRng + 1 ELSE stdRng
            /\ IF Dev = "writescfg" THEN cfg' = None /\ callerCfg' = (IF callerCfg = None THEN None ELSE -callerCfg)
               ELSE UNCHANGED <<cfg, callerCfg>>
    /\ UNCHANGED <<cached, alive>> /\ Log("Optimize", t)

\* an invalid call on a configured instance: unknown mode, non-positive worker count, objective/weight count mismatch.
\* It must be refused (ValueError) before any cycle runs: no run is recorded, no bookkeeping is touched.
OptimizeBadCall(t) ==
    /\ Room /\ alive /\ cfg # None
    /\ last' = "ValueError"
    /\ book' = (IF Dev = "latecheck" THEN book + 1 ELSE book)       \* deviation: validated only after cycles have run
    /\ UNCHANGED <<cfg, cached, callerCfg, priv, npRng, stdRng, hist, alive>> /\ Log("OptimizeBadCall", t)

\* the process draws other random numbers between two calls
PerturbNp == Room /\ npRng' = npRng + 1 /\ UNCHANGED <<cfg, cached, callerCfg, book, priv, stdRng, hist, alive, last>> /\ Log("PerturbNp", 0)
PerturbStd == Room /\ stdRng' = stdRng + 1 /\ UNCHANGED <<cfg, cached, callerCfg, book, priv, npRng, hist, alive, last>> /\ Log("PerturbStd", 0)

Next == \/ \E c \in Cfgs \cup {None} : Construct(c)
        \/ \E d \in Cfgs \cup {Bad} : SetConfig(d)
        \/ \E t \in Tasks : Optimize(t)
        \/ \E t \in Tasks : OptimizeBadCall(t)
        \/ PerturbNp \/ PerturbStd
Spec == Init /\ [][Next]_vars

-----------------------------------------------------------------------------
\* C07 + C08: a run's result is a function of (configuration, task incl. seed) - whatever happened before
RunFunctional == \A a, b \in DOMAIN hist : hist[a].key = hist[b].key => hist[a].result = hist[b].result
\* a result handed to the caller is never altered by later calls
ResultsImmutable == [][\A k \in DOMAIN hist : k \in DOMAIN hist' /\ hist'[k] = hist[k]]_vars
\* C09: optimize() leaves the caller's configuration object as it was (also when it raises)
CallerUntouched == [][(\E t \in Tasks : Optimize(t)) => callerCfg' = callerCfg /\ cfg' = cfg]_vars
\* C18
CanConstructEmpty == (Len(trace) > 0 /\ trace[Len(trace)] = <<"Construct", None>>) => last = "ok"
NoConfigRefuses == (Len(trace) > 0 /\ trace[Len(trace)][1] = "Optimize" /\ last = "ValueError") => cfg = None
RefusedMeansNoConfig == [][(\E t \in Tasks : Optimize(t)) /\ cfg = None => last' = "ValueError" /\ hist' = hist]_vars
\* C06: an invalid call is rejected up front
BadCallRefused == [][(\E t \in Tasks : OptimizeBadCall(t)) => last' = "ValueError" /\ hist' = hist /\ book' = book]_vars
SetConfigEquals == (Len(trace) > 0 /\ trace[Len(trace)][1] = "SetConfig" /\ trace[Len(trace)][2] # Bad) => cfg = trace[Len(trace)][2]
\* a run after set_config_parameters(d) equals a run of an optimizer constructed with that configuration
SetConfigRunEquals == \A a \in DOMAIN hist : hist[a].result[1] = hist[a].key[1]
=============================================================================
