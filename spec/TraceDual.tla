----------------------------- MODULE TraceDual ------------------------------
(***************************************************************************)
(* Judge of pairs of REAL runs (max, f) / (min, -f) with equal seed and    *)
(* configuration (C12).  Positions are interned in one table for the pair, *)
(* costs are signed dense ranks over the pair (negation preserving).       *)
(***************************************************************************)
EXTENDS Integers, Sequences, FiniteSets, SequencesExt, Json, IOUtils, TLC
Recs == ndJsonDeserialize(IOEnv.TRACE_FILE)
VARIABLES i, bad
Unless(ok, clause) == IF ok THEN {} ELSE {clause}
Fails(r) ==
    LET n == IF Len(r.evoA) < Len(r.evoB) THEN Len(r.evoA) ELSE Len(r.evoB)
        same(g) == Len(r.evoA[g]) = Len(r.evoB[g])
    IN  Unless(r.crashA = "" /\ r.crashB = "", "C12.crash")
        \cup Unless(Len(r.evoA) = Len(r.evoB) /\ \A g \in 1..n : same(g), "C12.len")
        \cup Unless(\A g \in 1..n : ~same(g) \/ \A k \in DOMAIN r.evoA[g] : r.evoA[g][k][1] = r.evoB[g][k][1], "C12.pos")
        \cup Unless(\A g \in 1..n : ~same(g) \/ \A k \in DOMAIN r.evoA[g] : r.evoA[g][k][2] = -r.evoB[g][k][2], "C12.cost")
        \cup Unless(r.crashA # "" \/ r.crashB # "" \/ (r.bestA[1] = r.bestB[1] /\ r.bestA[2] = -r.bestB[2]), "C12.best")
Init == i = 1 /\ bad = {}
Step == i <= Len(Recs) /\ bad' = bad \cup {<<Recs[i].id, cl>> : cl \in Fails(Recs[i])} /\ i' = i + 1
Finish == /\ i = Len(Recs) + 1
          /\ JsonSerialize(IOEnv.VERDICT_FILE, [consumed |-> Len(Recs), bad |-> SetToSeq(bad)])
          /\ i' = i + 1 /\ UNCHANGED bad
Next == Step \/ Finish
Spec == Init /\ [][Next]_<<i, bad>>
=============================================================================
