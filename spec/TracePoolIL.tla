---------------------------- MODULE TracePoolIL -----------------------------
(***************************************************************************)
(* Trace validation of a REAL process pool against Pool.tla, with TLC      *)
(* choosing the interleaving.  What is logged: each worker process logs    *)
(* the evaluations it performed, in its own order (per-process sequence    *)
(* numbers; there is no global clock); the parent logs the order in which  *)
(* it gathered the results.  What is NOT logged: how the processes'        *)
(* events interleave.  The trace spec lets every process advance           *)
(* independently through its own log, using Pool's actions Start / Finish  *)
(* / Gather, and TLC searches for an interleaving that is a behaviour of   *)
(* Pool.tla.  The trace is accepted iff some interleaving consumes every   *)
(* logged event and reaches Close (register 1 is set); ExactlyOnce,        *)
(* NeverTwice and DistinctDraws are checked in every state on the way.     *)
(***************************************************************************)
EXTENDS Pool, Json, IOUtils

Trace == JsonDeserialize(IOEnv.TRACE_FILE)      \* [workers: <<<<item, ...>>, ...>>, gathered: <<item, ...>>]
WLog == Trace.workers
GLog == Trace.gathered

VARIABLES wi, gi          \* positions in the workers' logs and in the parent's gather log
tvars == <<vars, wi, gi>>

TInit == Init /\ wi = [w \in Workers |-> 1] /\ gi = 1

TSubmit == Submit /\ UNCHANGED <<wi, gi>>
\* a worker process takes its next logged item, or finishes the one it is running
TStart(w) == /\ w <= Len(WLog) /\ wi[w] <= Len(WLog[w]) /\ running[w] = 0
             /\ Start(w, WLog[w][wi[w]])
             /\ UNCHANGED <<wi, gi>>
TFinish(w) == /\ running[w] # 0 /\ Finish(w)
              /\ wi' = [wi EXCEPT ![w] = wi[w] + 1] /\ UNCHANGED gi
\* the parent gathers exactly the result it logged next (Pool!Gather picks any finished one)
TGather == /\ gi <= Len(GLog) /\ GLog[gi] \in finished
           /\ pc = "pool"
           /\ gathered' = Append(gathered, GLog[gi]) /\ finished' = finished \ {GLog[gi]}
           /\ gi' = gi + 1
           /\ UNCHANGED <<pending, running, draws, shared, local, pc, wi>>
Consumed == gi = Len(GLog) + 1 /\ \A w \in Workers : (w > Len(WLog) \/ wi[w] = Len(WLog[w]) + 1)
TClose == Consumed /\ Close /\ TLCSet(1, TRUE) /\ UNCHANGED <<wi, gi>>

TNext == TSubmit \/ (\E w \in Workers : TStart(w) \/ TFinish(w)) \/ TGather \/ TClose
TSpec == TInit /\ [][TNext]_tvars

ASSUME TLCSet(1, FALSE)
Accepted == TLCGet(1) = TRUE
=============================================================================
