----------------------------- MODULE HyperTuner -----------------------------
(***************************************************************************)
(* HyperTuner.execute / resolve as a state machine (C19):                  *)
(*   for each grid point, in order:  SetConfig(point); n_trials x Run      *)
(*   Select:  best = a point whose mean best cost is optimal in the task's *)
(*            direction; best_score = that mean                            *)
(*   Resolve: SetConfig(best); Optimize                                    *)
(* and the ParameterGrid laws, exhaustively over small grids.              *)
(* Dev: "doubleinvert" (max tasks: ranking inverted twice - the pinned     *)
(* tree), "skip" (a grid point is skipped), "stale" (a run is made with    *)
(* the previous point's parameters), "offbyone" (__getitem__ disagrees     *)
(* with iteration).                                                        *)
(***************************************************************************)
EXTENDS GridRel, TLC

CONSTANTS MaxKeys, MaxVals, MaxSubs, NP, NT, Alpha, Dev

\* ---- grid laws
SubGrids == UNION {[1..k -> 1..MaxVals] : k \in 0..MaxKeys}
Grids == UNION {[1..n -> SubGrids] : n \in 1..MaxSubs}

VARIABLES c
InitC == c \in {[kind |-> "pre", n |-> n, first |-> s] : n \in 1..MaxSubs, s \in SubGrids}
          \cup {[kind |-> "pretab", dir |-> d, first |-> a] : d \in {"min", "max"}, a \in Alpha}
NextGrid == c.kind = "pre" /\ \E g \in [1..c.n -> SubGrids] : g[1] = c.first /\ c' = [kind |-> "grid", grid |-> g]
\* ---- score tables
NextTab == c.kind = "pretab" /\ \E np \in 1..NP, nt \in 1..NT : \E sc \in [1..np -> [1..nt -> Alpha]] :
               sc[1][1] = c.first /\ c' = [kind |-> "table", scores |-> sc, dir |-> c.dir]
Next == NextGrid \/ NextTab
Spec == InitC /\ [][Next]_c

At(grid, i) == IF Dev = "offbyone" /\ i > 0 THEN GridAt(grid, i - 1) ELSE GridAt(grid, i)
LawLen == c.kind = "grid" => Len(GridSeq(c.grid)) = GridLen(c.grid)
LawIndex == c.kind = "grid" => \A i \in 0..(GridLen(c.grid) - 1) : At(c.grid, i) = GridSeq(c.grid)[i + 1]
LawOutOfRange == c.kind = "grid" => GridAt(c.grid, GridLen(c.grid))[1] = 0
LawDistinct == c.kind = "grid" => \A g \in DOMAIN c.grid :
                  LET pts == SubSeqOfPoints(c.grid[g]) IN \A a, b \in DOMAIN pts : a # b => pts[a] # pts[b]

\* selection as intended / as coded on the pinned tree for max tasks
ArgOpt(scores, dir) == CHOOSE p \in DOMAIN scores : \A q \in DOMAIN scores : ~BetterMean(dir, scores[q], scores[p])
ArgWorst(scores, dir) == CHOOSE p \in DOMAIN scores : \A q \in DOMAIN scores : ~BetterMean(dir, scores[p], scores[q])
Select(scores, dir) == IF Dev = "doubleinvert" /\ dir = "max" THEN ArgWorst(scores, dir) ELSE ArgOpt(scores, dir)
LawSelect == c.kind = "table" => TunerOptimal(c.scores, c.dir, Select(c.scores, c.dir))
=============================================================================
