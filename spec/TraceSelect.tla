---------------------------- MODULE TraceSelect -----------------------------
(***************************************************************************)
(* Judge of the answers the REAL selection helpers / replacement           *)
(* primitives gave (one ndjson record per call bundle, written by          *)
(* harness/c16.py).  Each record is a case of Select.tla plus what the     *)
(* code returned, as indexes into the caller's list.  The verdict is total:*)
(* every failed clause of every record is collected, nothing stops at the  *)
(* first rejection.                                                        *)
(***************************************************************************)
EXTENDS SelectRel, Json, IOUtils, TLC

Recs == ndJsonDeserialize(IOEnv.TRACE_FILE)

VARIABLES i, bad

Unless(ok, clause) == IF ok THEN {} ELSE {clause}

FailsSel(r) ==
    Unless(ValidBest(r.pop, r.n, r.dir, r.best), "C16.best")
    \cup Unless(ValidWorst(r.pop, r.n, r.dir, r.worst), "C16.worst")
    \cup Unless(ValidBest(r.pop, r.n, r.dir, r.besti) /\ SameCosts(r.pop, r.besti, r.best), "C16.best_indexes")
    \cup Unless(ValidWorst(r.pop, r.n, r.dir, r.worsti) /\ SameCosts(r.pop, r.worsti, r.worst), "C16.worst_indexes")
    \cup Unless(ValidSortTrim(r.pop, r.n, r.trim), "C16.sort_and_trim")
    \cup Unless(ValidSort(r.pop, r.dir, r.sort), "C16.sort_by_cost")
    \cup Unless(ValidSort(r.pop, r.dir, r.sorti) /\ SameCosts(r.pop, r.sorti, r.sort), "C16.sort_by_cost_indexes")
    \cup Unless(ValidBest(r.pop, 1, r.dir, r.best1), "C16.best_agent")
    \cup Unless(ValidWorst(r.pop, 1, r.dir, r.worst1), "C16.worst_agent")
    \cup Unless(ValidBest(r.pop, 1, r.dir, r.best1i) /\ SameCosts(r.pop, r.best1i, r.best1), "C16.best_agent_index")
    \cup Unless(ValidWorst(r.pop, 1, r.dir, r.worst1i) /\ SameCosts(r.pop, r.worst1i, r.worst1), "C16.worst_agent_index")
    \cup Unless(ValidBest(r.pop, r.n, r.dir, r.spbest) /\ ValidWorst(r.pop, r.n, r.dir, r.spworst), "C16.special_agents")
    \cup Unless(r.untouched, "C16.input_untouched")

FailsGreedy(r) ==
    Unless(\A k \in DOMAIN r.pop : r.picks[k] = GreedyPick(r.pop[k], r.new[k]), "C16.greedy_agent")
    \cup Unless(ValidGreedyPop(r.pop, r.new, r.out), "C16.greedy_population")
    \cup Unless(ValidGreedyPop(r.pop, r.new, r.outp), "C16.greedy_population_pooled")
    \cup Unless(r.untouched, "C16.input_untouched")

FailsExt(r) ==
    Unless(ValidExtendTrim(r.pop, r.new, r.N, r.out), "C16.extend_and_trim")
    \cup Unless(Len(r.new) = 0 \/ ValidReplaceTrim(r.new, r.N, r.rep), "C16.replace_and_trim")
    \cup Unless(r.untouched, "C16.input_untouched")

FailsGroup(r) ==
    Unless(ValidGroups(r.size, r.ng, r.na, r.resid, r.out), "C10.groups")
    \cup Unless(r.untouched, "C10.groups_copy")

Fails(r) == CASE r.kind = "sel" -> FailsSel(r)
              [] r.kind = "greedy" -> FailsGreedy(r)
              [] r.kind = "ext" -> FailsExt(r)
              [] r.kind = "group" -> FailsGroup(r)
              [] OTHER -> {"C16.unknown_record"}

Init == i = 1 /\ bad = {}
Step == /\ i <= Len(Recs)
        /\ bad' = bad \cup {<<Recs[i].id, cl>> : cl \in Fails(Recs[i])}
        /\ i' = i + 1
Finish == /\ i = Len(Recs) + 1
          /\ JsonSerialize(IOEnv.VERDICT_FILE, [consumed |-> Len(Recs), bad |-> SetToSeq(bad)])
          /\ i' = i + 1
          /\ UNCHANGED bad
Next == Step \/ Finish
Spec == Init /\ [][Next]_<<i, bad>>
=============================================================================
