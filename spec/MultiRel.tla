------------------------------ MODULE MultiRel ------------------------------
(***************************************************************************)
(* Multitask (multitask.py), property C20, constant-free.                  *)
(* n algorithms, m tasks; `modes` is None (L = 0) or a tuple of L mode     *)
(* values (1 serial, 2 thread, 3 process, 9 = not a mode).  Documented     *)
(* shapes: one value, one per algorithm, one per task, one per pair        *)
(* (row-major: algorithm-major).  When a length fits several shapes the   *)
(* documented order decides: "size (1) or (n) or (m) or (n*m)" - a tuple   *)
(* of n values is one per algorithm even when n = m.                       *)
(***************************************************************************)
EXTENDS Integers, Sequences, FiniteSets, SequencesExt

Serial == 1
IsMode(v) == v \in {1, 2, 3}

Readings(n, m, L) ==
    (IF L = 0 THEN {"none"} ELSE {})
    \cup (IF L = 1 THEN {"one"} ELSE {})
    \cup (IF L = n /\ L > 0 THEN {"per_algorithm"} ELSE {})
    \cup (IF L = m /\ L > 0 THEN {"per_task"} ELSE {})
    \cup (IF L = n * m /\ L > 0 THEN {"per_pair"} ELSE {})

TableOf(reading, n, m, modes) ==
    [a \in 1..n |-> [t \in 1..m |->
        CASE reading = "none" -> Serial
          [] reading = "one" -> modes[1]
          [] reading = "per_algorithm" -> modes[a]
          [] reading = "per_task" -> modes[t]
          [] reading = "per_pair" -> modes[(a - 1) * m + t]]]

ValidShape(n, m, L) == Readings(n, m, L) # {}
AllModes(modes) == \A k \in DOMAIN modes : IsMode(modes[k])
\* the constructor must accept exactly the valid shapes made of known modes
MustAccept(n, m, modes) == ValidShape(n, m, Len(modes)) /\ AllModes(modes)

\* calls = sequence of <<algorithm, task, mode, workers>> seen by the optimizers during execute()
Count(calls, a, t) == Cardinality({k \in DOMAIN calls : calls[k][1] = a /\ calls[k][2] = t})
EveryPairRuns(n, m, nt, calls) == \A a \in 1..n, t \in 1..m : Count(calls, a, t) = nt
\* the reading the documentation gives a tuple of length L: first fitting shape in the documented order
Reading(n, m, L) == IF L = 0 THEN "none" ELSE IF L = 1 THEN "one" ELSE IF L = n THEN "per_algorithm"
                    ELSE IF L = m THEN "per_task" ELSE "per_pair"
ModesHonoured(n, m, modes, calls) ==
    \E r \in {Reading(n, m, Len(modes))} :
        LET tab == TableOf(r, n, m, modes)
        IN \A k \in DOMAIN calls : calls[k][1] \in 1..n /\ calls[k][2] \in 1..m /\ calls[k][3] = tab[calls[k][1]][calls[k][2]]

\* Result tables.  tabs[a] = the table of algorithm a as a sequence of columns <<algorithm, task, rows>> (who the column
\* is named after) with rows[k] = <<id_trial, task, algorithm>> of the RESULT stored in row k.  One table per algorithm,
\* one column per task in task order, one row per trial in trial order, and every cell holds the result of exactly that
\* (algorithm, task, trial).  The same relation is demanded of what export_results wrote for each algorithm.
TablesRight(n, m, nt, tabs) ==
    /\ Len(tabs) = n
    /\ \A a \in 1..n :
          /\ Len(tabs[a]) = m
          /\ \A t \in 1..m : /\ tabs[a][t][1] = a /\ tabs[a][t][2] = t
                              /\ Len(tabs[a][t][3]) = nt
                              /\ \A k \in 1..nt : tabs[a][t][3][k] = <<k, t, a>>
=============================================================================
