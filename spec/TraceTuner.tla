----------------------------- MODULE TraceTuner -----------------------------
(***************************************************************************)
(* Judge of the REAL ParameterGrid and HyperTuner (C19).                   *)
(*  kind "grid":  seq / len / at = what list(pg), len(pg), pg[i] returned, *)
(*                as <<sub-grid index, value indexes>>; oob = pg[len]      *)
(*                raised IndexError                                        *)
(*  kind "tuner": scores = the scripted best costs per grid point and      *)
(*                trial; calls = point index seen by every optimize() call *)
(*                of execute(); best = index of best_parameters;           *)
(*                score_ok, resolve = point index resolve() ran with       *)
(***************************************************************************)
EXTENDS GridRel, Json, IOUtils, TLC
Recs == ndJsonDeserialize(IOEnv.TRACE_FILE)
VARIABLES i, bad
Unless(ok, clause) == IF ok THEN {} ELSE {clause}
RangeOfS(s) == {s[k] : k \in DOMAIN s}
Count(s, x) == Cardinality({k \in DOMAIN s : s[k] = x})
Fails(r) ==
    CASE r.kind = "grid" ->
            Unless(r.len = GridLen(r.grid) /\ Len(r.seq) = r.len, "C19.grid.len")
            \cup Unless(r.seq = GridSeq(r.grid), "C19.grid.iter")
            \cup Unless(Len(r.at) = GridLen(r.grid) /\ \A k \in DOMAIN r.at : r.at[k] = GridAt(r.grid, k - 1) /\ r.at[k] = r.seq[k], "C19.grid.index")
            \cup Unless(r.oob, "C19.grid.oob")
      [] r.kind = "tuner" ->
            Unless(~r.raised, "C19.crash")
            \cup Unless(r.raised \/ \A p \in DOMAIN r.scores : Count(r.calls, p) = r.nt, "C19.every_point")
            \cup Unless(r.raised \/ (RangeOfS(r.calls) \subseteq DOMAIN r.scores /\ Len(r.calls) = r.nt * Len(r.scores)), "C19.calls")
            \cup Unless(r.raised \/ TunerOptimal(r.scores, r.dir, r.best), "C19.optimal")
            \cup Unless(r.raised \/ r.score_ok, "C19.score")
            \cup Unless(r.raised \/ r.resolve = r.best, "C19.resolve")
            \cup Unless(r.raised \/ r.again_ok, "C19.reuse")       \* a second execute() on the same tuner answers for the new task
      [] OTHER -> {"C19.unknown_record"}
Init == i = 1 /\ bad = {}
Step == i <= Len(Recs) /\ bad' = bad \cup {<<Recs[i].id, cl>> : cl \in Fails(Recs[i])} /\ i' = i + 1
Finish == /\ i = Len(Recs) + 1
          /\ JsonSerialize(IOEnv.VERDICT_FILE, [consumed |-> Len(Recs), bad |-> SetToSeq(bad)])
          /\ i' = i + 1 /\ UNCHANGED bad
Next == Step \/ Finish
Spec == Init /\ [][Next]_<<i, bad>>
=============================================================================
