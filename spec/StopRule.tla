------------------------------ MODULE StopRule ------------------------------
(***************************************************************************)
(* The stop machine of OptimizationAbstract.optimize(), written the way    *)
(* abstract.py is written (one action per critical section):               *)
(*   Enter      prologue of optimize(): per-run bookkeeping                *)
(*   DoStep     optimization_step() + snapshot appended to `evolution`     *)
(*   DoCheck(r) __error_check__: append the rate r of this cycle, append   *)
(*              the first difference (against 0 for the first cycle),      *)
(*              __should_stop__: cycle >= max_cycles, OR-ed with the       *)
(*              early-stopping window (last `patience` differences, or     *)
(*              fewer) and with rate <= fitness_error; break or cycle += 1 *)
(*   Reenter    a further optimize() call on the same instance             *)
(* and checked against the declarative rule of StopRel for ALL histories   *)
(* of rates up to the bound.                                               *)
(***************************************************************************)
EXTENDS StopRel, TLC

CONSTANTS MaxMC,     \* max_cycles in 1..MaxMC
          Levels,    \* rate levels 0..Levels (eighths)
          Pats,      \* patience values
          MDs,       \* min_delta levels (eighths; 0 means "never small enough")
          MaxRuns,   \* optimize() calls on one instance
          Dev        \* "none" | "gt" | "lt" | "window1" | "noreset" | "nodummy": named deviations

VARIABLES mc, fe, es,     \* the configuration
          k,              \* _current_cycle
          rates, diffs,   \* _errors, _error_diffs
          gens,           \* len(evolution)
          steps,          \* optimization_step() calls of this run
          pc, run
vars == <<mc, fe, es, k, rates, diffs, gens, steps, pc, run>>

Cfgs == {<<m, f, e>> : m \in 1..MaxMC, f \in {None} \cup (0..Levels), e \in {NoEs} \cup (Pats \X MDs)}

Init == /\ \E c \in Cfgs : mc = c[1] /\ fe = c[2] /\ es = c[3]
        /\ k = 1 /\ rates = <<>> /\ diffs = <<>> /\ gens = 0 /\ steps = 0 /\ pc = "enter" /\ run = 1

\* optimize() prologue + initial population snapshot
Enter == /\ pc = "enter"
         /\ IF Dev = "noreset" THEN UNCHANGED <<k, rates, diffs>>
            ELSE k' = 1 /\ rates' = <<>> /\ diffs' = <<>>
         /\ gens' = 1 /\ steps' = 0 /\ pc' = "step"
         /\ UNCHANGED <<mc, fe, es, run>>

DoStep == /\ pc = "step"
          /\ steps' = steps + 1 /\ gens' = gens + 1 /\ pc' = "check"
          /\ UNCHANGED <<mc, fe, es, k, rates, diffs, run>>

LastN(s, n) == SubSeq(s, (IF Len(s) - n + 1 < 1 THEN 1 ELSE Len(s) - n + 1), Len(s))
All(s, P(_)) == \A i \in DOMAIN s : P(s[i])

DoCheck(r) ==
    /\ pc = "check"
    /\ LET prev == IF rates = <<>> THEN 0 ELSE rates[Len(rates)]
           rates2 == Append(rates, r)
           diffs2 == IF Dev = "nodummy" /\ rates = <<>> THEN diffs ELSE Append(diffs, r - prev)
           pat == IF Dev = "window1" THEN 1 ELSE es[1]
           small(d) == d < 0 /\ -d < es[2]
           stopMax == IF Dev = "gt" THEN k > mc ELSE k >= mc
           stopEs == HasEs(es) /\ All(LastN(diffs2, pat), small)
           stopFe == fe # None /\ (IF Dev = "lt" THEN r < fe ELSE r <= fe)
       IN /\ rates' = rates2 /\ diffs' = diffs2
          /\ IF stopMax \/ stopEs \/ stopFe THEN pc' = "done" /\ k' = k ELSE pc' = "step" /\ k' = k + 1
    /\ UNCHANGED <<mc, fe, es, gens, steps, run>>

Reenter == /\ pc = "done" /\ run < MaxRuns
           /\ pc' = "enter" /\ run' = run + 1
           /\ UNCHANGED <<mc, fe, es, k, rates, diffs, gens, steps>>

Next == Enter \/ DoStep \/ (\E r \in 0..Levels : DoCheck(r)) \/ Reenter
Spec == Init /\ [][Next]_vars /\ WF_vars(Next)

-----------------------------------------------------------------------------
\* what the caller sees of THIS run: one rate per executed cycle
RunRates == IF Dev = "noreset" THEN rates ELSE rates

Exact == pc = "done" =>
    /\ Len(rates) = steps                       \* one rate per executed cycle
    /\ steps >= 1
    /\ Crit(mc, fe, es, rates, steps)           \* a criterion holds at the last cycle ...
    /\ \A j \in 1..(steps - 1) : ~Crit(mc, fe, es, rates, j)   \* ... and held at no earlier one
    /\ First(mc, fe, es, rates) = steps
NoLate == pc \in {"step", "check"} => \A j \in 1..Len(rates) : ~Crit(mc, fe, es, rates, j)
Bounded == steps <= mc /\ (pc # "enter" => k <= mc \/ Dev # "none")
EvoLen == pc \in {"step", "done"} => gens = steps + 1
CycleIsStep == pc = "check" => k = steps \/ Dev # "none"
Terminates == <>(pc = "done")
EachRunTerminates == [](pc = "enter" => <>(pc = "done"))
=============================================================================
