SPECIFICATION Spec
CONSTANTS
  K = 3
  W = 2
  Mode = "thread"
  Dev = "dupfuture"
INVARIANT ExactlyOnce
INVARIANT NeverTwice
INVARIANT DistinctDraws
INVARIANT ScheduleIndependentSet
PROPERTY Closes
CHECK_DEADLOCK FALSE
