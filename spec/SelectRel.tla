----------------------------- MODULE SelectRel ------------------------------
(***************************************************************************)
(* The relations that define what a correct answer of a selection helper   *)
(* or replacement primitive is (property C16; used by C03, C10, C17).      *)
(* Constant-free and variable-free: shared by the exhaustive model         *)
(* (Select.tla), the run machine (PopMachine.tla) and the trace judges.    *)
(***************************************************************************)
EXTENDS Integers, Sequences, FiniteSets, SequencesExt, Functions

Dirs == {"min", "max"}

\* strictly better in direction d
Better(d, a, b) == IF d = "min" THEN a < b ELSE a > b

Idx(pop) == 1..Len(pop)
RangeOf(s) == {s[i] : i \in DOMAIN s}
Distinct(s) == \A i, j \in DOMAIN s : i # j => s[i] # s[j]
CostsOf(pop, out) == [i \in DOMAIN out |-> pop[out[i]]]
MinN(a, b) == IF a < b THEN a ELSE b

-----------------------------------------------------------------------------
(* Relations                                                               *)

\* out designates members of pop, no member twice
Members(pop, out) == RangeOf(out) \subseteq Idx(pop) /\ Distinct(out)

\* ordered best first (equivalently: worst last)
BestFirst(pop, d, out) == \A i, j \in DOMAIN out : i < j => ~Better(d, pop[out[j]], pop[out[i]])

\* n members, best first, and no omitted agent strictly better than a returned one
ValidBest(pop, n, d, out) ==
    /\ Len(out) = MinN(n, Len(pop))
    /\ Members(pop, out)
    /\ BestFirst(pop, d, out)
    /\ \A k \in Idx(pop) \ RangeOf(out) : \A i \in DOMAIN out : ~Better(d, pop[k], pop[out[i]])

\* n members, worst last, and no omitted agent strictly worse than a returned one
ValidWorst(pop, n, d, out) ==
    /\ Len(out) = MinN(n, Len(pop))
    /\ Members(pop, out)
    /\ BestFirst(pop, d, out)
    /\ \A k \in Idx(pop) \ RangeOf(out) : \A i \in DOMAIN out : ~Better(d, pop[out[i]], pop[k])

\* a complete ordering of the population
ValidSort(pop, d, out) == ValidBest(pop, Len(pop), d, out) /\ Len(out) = Len(pop)

\* sort-and-trim keeps the n cheapest, ascending, whatever the direction of the task
ValidSortTrim(pop, n, out) == ValidBest(pop, n, "min", out)

\* the _indexes variants designate agents with the same costs as the non-index variant
SameCosts(pop, a, b) == CostsOf(pop, a) = CostsOf(pop, b)

\* greedy replacement of one agent: the incumbent stays unless the challenger is strictly cheaper
GreedyPick(old, new) == IF new < old THEN "new" ELSE "old"

\* ascending sequence of the costs of a population
Asc(pop) == SortSeq(pop, <)

\* element-wise greedy replacement on cost-sorted populations.  The answer is a sequence of
\* <<origin, index>> with origin 0 = current population, 1 = challengers.  Which of several
\* equal-cost agents sits at which rank is free; the multiset of <<origin, cost>> is not.
Origin(o) == o[1]
OIdx(o) == o[2]
CostOfO(pop, new, o) == IF Origin(o) = 0 THEN pop[OIdx(o)] ELSE new[OIdx(o)]
ExpectedGreedy(pop, new) ==
    LET a == Asc(pop)  b == Asc(new)
    IN [k \in 1..Len(pop) |-> IF GreedyPick(a[k], b[k]) = "new" THEN <<1, b[k]>> ELSE <<0, a[k]>>]
\* comparison of multisets of pairs: sort by (cost, origin)
PairLess(p, q) == p[2] < q[2] \/ (p[2] = q[2] /\ p[1] < q[1])
ValidGreedyPop(pop, new, out) ==
    /\ Len(new) >= Len(pop)
    /\ Len(out) = Len(pop)
    /\ Distinct(out)
    /\ \A i \in DOMAIN out : /\ Origin(out[i]) \in {0, 1}
                             /\ OIdx(out[i]) \in (IF Origin(out[i]) = 0 THEN Idx(pop) ELSE Idx(new))
    /\ SortSeq([i \in DOMAIN out |-> <<Origin(out[i]), CostOfO(pop, new, out[i])>>], PairLess)
         = SortSeq(ExpectedGreedy(pop, new), PairLess)

\* extend-and-trim: nothing happens for an empty extension, otherwise the N cheapest of the union survive
ValidExtendTrim(pop, new, N, out) ==
    IF Len(new) = 0 THEN out = [i \in Idx(pop) |-> i]
    ELSE ValidSortTrim(pop \o new, N, out)          \* indexes into pop \o new
ValidReplaceTrim(new, N, out) == ValidSortTrim(new, N, out)

\* groups: n_groups slices of n_agents consecutive agents + one residual group holding the agents the groups
\* leave over (size - n_groups * n_agents of them, the last ones) when there are any; no agent is lost or duplicated
ValidGroups(size, ng, na, resid, out) ==
    LET r == size - ng * na
        want == IF resid /\ r > 0 THEN ng + 1 ELSE ng
    IN /\ Len(out) = want
       /\ \A g \in 1..ng : out[g] = [k \in 1..MinN(na, IF size - (g-1)*na > 0 THEN size - (g-1)*na ELSE 0) |-> (g-1)*na + k]
       /\ (want = ng + 1) => out[ng + 1] = [k \in 1..r |-> size - r + k]
=============================================================================
