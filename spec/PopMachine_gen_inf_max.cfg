SPECIFICATION Spec
CONSTANTS
  N = 2
  Dir = "max"
  MC = 3
  Kinds = {"greedy_each", "greedy_pop", "extend_trim", "replace_all", "replace_trim", "shrink"}
  FT <- FT3
  Dev = "none"
INVARIANT Feasible
INVARIANT ArgsOK
INVARIANT CostTruth
INVARIANT BestOK
INVARIANT SizeInv
INVARIANT HistoryOK
INVARIANT EvoLen
INVARIANT BestEver
PROPERTY HistoryAppendOnly
PROPERTY ElitistMonotone
PROPERTY StepRefinesFrame
PROPERTY Terminates
CHECK_DEADLOCK FALSE
