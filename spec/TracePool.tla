----------------------------- MODULE TracePool ------------------------------
(***************************************************************************)
(* Judge of the REAL pool hand-off (C11).  Records:                        *)
(*  kind "order"  a completion order produced by TLC (Pool.tla) was forced *)
(*                on the real _generate_agents through a controllable      *)
(*                executor: gathered[k] = submitted item the k-th result   *)
(*                came from                                                *)
(*  kind "greedy" the same for _greedy_select_population: the answer is    *)
(*                judged by SelectRel!ValidGreedyPop whatever the order    *)
(*  kind "pool"   a real thread / process pool with injected delays:       *)
(*                evals = position ids of the objective calls (from the    *)
(*                per-process logs), agents = position ids of the agents   *)
(*                handed back                                              *)
(***************************************************************************)
EXTENDS SelectRel, Json, IOUtils, TLC, Bags

Recs == ndJsonDeserialize(IOEnv.TRACE_FILE)
VARIABLES i, bad
Unless(ok, clause) == IF ok THEN {} ELSE {clause}
BagOf(s) == [x \in RangeOf(s) |-> Cardinality({k \in DOMAIN s : s[k] = x})]

Fails(r) ==
    CASE r.kind = "order" ->
            Unless(Len(r.gathered) = r.K /\ RangeOf(r.gathered) = 1..r.K, "C11.once")
            \cup Unless(Distinct(r.positions), "C11.distinct")
      [] r.kind = "greedy" ->
            Unless(Len(r.out) = Len(r.pop) /\ Distinct(r.out), "C11.once")
            \cup Unless(ValidGreedyPop(r.pop, r.new, r.out), "C11.set")
      [] r.kind = "pool" ->
            Unless(Len(r.agents) = r.K /\ BagOf(r.agents) = BagOf(r.evals), "C11.once")
            \cup Unless(Distinct(r.agents), "C11.distinct")
      [] OTHER -> {"C11.unknown_record"}

Init == i = 1 /\ bad = {}
Step == i <= Len(Recs) /\ bad' = bad \cup {<<Recs[i].id, cl>> : cl \in Fails(Recs[i])} /\ i' = i + 1
Finish == /\ i = Len(Recs) + 1
          /\ JsonSerialize(IOEnv.VERDICT_FILE, [consumed |-> Len(Recs), bad |-> SetToSeq(bad)])
          /\ i' = i + 1 /\ UNCHANGED bad
Next == Step \/ Finish
Spec == Init /\ [][Next]_<<i, bad>>
=============================================================================
