SPECIFICATION Spec
CONSTANTS
  Dev = "none"
  MaxTask = 3
INVARIANT LawCorrectScalar
INVARIANT LawCorrectPerm
INVARIANT LawDecode
INVARIANT PermConsistency
INVARIANT LawMulti
INVARIANT DimLaw
INVARIANT CorrectSolutionLaw
INVARIANT TransformLaw
INVARIANT BoundsLaw
CHECK_DEADLOCK FALSE
