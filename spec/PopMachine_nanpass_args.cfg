SPECIFICATION Spec
CONSTANTS
  N = 2
  Dir = "min"
  MC = 1
  Kinds = {"greedy_each", "greedy_pop", "extend_trim"}
  FT <- FT1
  Dev = "nanpass"
INVARIANT ArgsOK
VIEW view
CHECK_DEADLOCK FALSE
