----------------------------- MODULE TraceMulti -----------------------------
(***************************************************************************)
(* Judge of the REAL Multitask (C20): one record per (n, m, modes, trials) *)
(* case driven with scripted optimizers / tasks of distinct classes that   *)
(* log what every optimize() call saw.                                     *)
(***************************************************************************)
EXTENDS MultiRel, Json, IOUtils, TLC
Recs == ndJsonDeserialize(IOEnv.TRACE_FILE)
VARIABLES i, bad
Unless(ok, clause) == IF ok THEN {} ELSE {clause}
Fails(r) ==
    IF ~MustAccept(r.n, r.m, r.modes)
    THEN Unless(r.ctor = "ValueError", "C20.reject")
    ELSE Unless(r.ctor = "", "C20.construct")
         \cup (IF r.ctor # "" THEN {} ELSE
               Unless(r.exec = "", "C20.execute")
               \cup (IF r.exec # "" THEN {} ELSE
                     Unless(EveryPairRuns(r.n, r.m, r.nt, r.calls) /\ Len(r.calls) = r.n * r.m * r.nt, "C20.pairs")
                     \cup Unless(ModesHonoured(r.n, r.m, r.modes, r.calls), "C20.mode")
                     \cup Unless(\A k \in DOMAIN r.calls : r.calls[k][4] = r.workers, "C20.workers")
                     \cup Unless(Len(r.tables) = r.n /\ \A a \in DOMAIN r.tables : r.tables[a] = <<r.nt, r.m>>, "C20.shape")
                     \cup Unless(r.columns_ok, "C20.columns")
                     \cup Unless(TablesRight(r.n, r.m, r.nt, r.cells), "C20.cells")
                     \cup Unless(r.export # "" \/ TablesRight(r.n, r.m, r.nt, r.content), "C20.content")
                     \cup Unless(r.export = "" /\ Len(r.files) = r.n /\ \A a \in DOMAIN r.files : r.files[a] = 1 /\ r.stray = 0, "C20.export")))
Init == i = 1 /\ bad = {}
Step == i <= Len(Recs) /\ bad' = bad \cup {<<Recs[i].id, cl>> : cl \in Fails(Recs[i])} /\ i' = i + 1
Finish == /\ i = Len(Recs) + 1
          /\ JsonSerialize(IOEnv.VERDICT_FILE, [consumed |-> Len(Recs), bad |-> SetToSeq(bad)])
          /\ i' = i + 1 /\ UNCHANGED bad
Next == Step \/ Finish
Spec == Init /\ [][Next]_<<i, bad>>
=============================================================================
