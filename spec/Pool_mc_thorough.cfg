SPECIFICATION Spec
CONSTANTS
  K = 5
  W = 3
  Mode = "thread"
  Dev = "none"
INVARIANT ExactlyOnce
INVARIANT NeverTwice
INVARIANT DistinctDraws
INVARIANT ScheduleIndependentSet
PROPERTY Closes
CHECK_DEADLOCK FALSE
