------------------------------ MODULE TracePop ------------------------------
(***************************************************************************)
(* Trace validation of REAL runs of optimize() (all 84 optimizers, the     *)
(* scripted optimizer, all solver modes) against the run machine.          *)
(* One ndjson record per run, written by harness/corpus.py after the       *)
(* projection alpha (position ids, signed dense ranks, membership classes; *)
(* DESIGN.md section 3).  TLC replays each run as a behaviour:             *)
(*     Enter  ->  Phase (init)  ->  Phase (cycle 1) ... -> Return          *)
(* binding `pop` to the logged population after every phase and evaluating *)
(* the frame condition of the step and every state predicate of PopRel;    *)
(* the stop rule is StopRel's.  Verdicts are total: a failed clause is     *)
(* recorded as <<run id, clause>> and the replay goes on.                  *)
(***************************************************************************)
EXTENDS PopRel, StopRel, AlgoRel, Json, IOUtils, TLC

Recs == ndJsonDeserialize(IOEnv.TRACE_FILE)

VARIABLES i,      \* run being replayed
          g,      \* phases replayed so far (0 = entered)
          pc,     \* "enter" | "run" | "done"
          pop,    \* the abstract population (internal costs)
          bad
vars == <<i, g, pc, pop, bad>>

Unless(ok, clause) == IF ok THEN {} ELSE {clause}
Ag(a) == [p |-> a[1], c |-> a[2]]
Rep(a) == [p |-> a[1], u |-> a[2], fit |-> a[3] = 1]
PopOf(s) == [k \in DOMAIN s |-> Ag(s[k])]
GenOf(s) == [k \in DOMAIN s |-> Rep(s[k])]

\* membership of a position from its class vector: classes 0,1,2 = inside / on the lower / on the upper bound;
\* 10 = a permutation of the item indexes; everything else (below, above, nan, inf, non-integer, bad type) is outside
MemCls(isperm, cl) == IF isperm = 1 THEN cl = 10 ELSE cl \in {0, 1, 2}
Mem(r) == [p \in DOMAIN r.ptab |-> Len(r.ptab[p]) = r.D /\ \A k \in 1..r.D : MemCls(r.kindp[k], r.ptab[p][k])]
Seen(r) == [p \in DOMAIN r.stab |-> r.stab[p] = 1]

R == Recs[i]

\* C15, second half: agent_trend / agent_position / best_agent_trend / best_agent_position return, for every requested
\* iteration, the cost / position of the idx-th best agent of that generation IN THE TASK'S DIRECTION (the cost is unique
\* even with ties; the position may be that of any tied agent); the last entry of best_agent_trend is best_solution.cost
RankedCost(dir, gen, idx) ==       \* cost of the idx-th best (1-based) agent of a generation
    LET us == [k \in DOMAIN gen |-> gen[k].u]
        srt == IF dir = "min" THEN SortSeq(us, <) ELSE SortSeq(us, >)
    IN srt[idx]
TrendOK(r, evo, best) ==
    /\ r.trend_ok
    /\ \A idx \in DOMAIN r.trend :
          /\ Len(r.trend[idx]) = Len(evo) /\ Len(r.tpos[idx]) = Len(evo)
          /\ \A gi \in DOMAIN evo :
                /\ r.trend[idx][gi] = RankedCost(r.dir, evo[gi], idx)
                /\ \E a \in DOMAIN evo[gi] : evo[gi][a].p = r.tpos[idx][gi] /\ evo[gi][a].u = r.trend[idx][gi]
    /\ Len(r.sub.full) = Len(evo) /\ r.sub.full[Len(evo)] = best.u
    /\ \A gi \in DOMAIN evo : r.sub.full[gi] = RankedCost(r.dir, evo[gi], 1)
                              /\ \E a \in DOMAIN evo[gi] : evo[gi][a].p = r.sub.fullpos[gi] /\ evo[gi][a].u = r.sub.full[gi]
    /\ Len(r.sub.trend) = Len(r.sub.iters) /\ Len(r.sub.pos) = Len(r.sub.iters)
    /\ \A k \in DOMAIN r.sub.iters : r.sub.trend[k] = r.sub.full[r.sub.iters[k]] /\ r.sub.pos[k] = r.sub.fullpos[r.sub.iters[k]]


FailsEnter(r) ==
    Unless(r.crash = "", "C06.crash")
    \cup Unless(r.cfg_same, "C09.cfg")
    \cup Unless(r.task_same, "C09.task")
    \cup Unless(r.repro = 1, "C07.repro")      \* the same key on a second fresh instance gave a different result
    \cup Unless(r.reuse = 1, "C08.reuse")      \* ... and once more on that used instance

\* extensions (AlgoRel): phase k >= 2 is optimization_step number k - 1, which started from snapshot k - 1
Pairs(s) == [j \in DOMAIN s |-> <<s[j][1], s[j][2]>>]
FailsExt(r, k) ==
    IF k < 2 \/ k - 1 > Len(r.cyc) \/ k > Len(r.aux) THEN {}
    ELSE LET prev == Pairs(r.snaps[k - 1])
             new == Pairs(r.snaps[k])
             ax == r.aux[k]
         IN  Unless(r.cyc[k - 1] = k - 1, "X.cycle")
             \cup Unless(r.nerr[k - 1] = <<k - 2, k - 2>>, "X.rates")      \* one rate and one difference per completed cycle of THIS run
             \cup Unless(Len(prev) = 0 \/ LeaderOK(<<r.lead[k - 1][1], r.lead[k - 1][2]>>, prev), "X.leader")
             \cup Unless(~r.slotwise \/ Slotwise([j \in DOMAIN prev |-> prev[j][2]], [j \in DOMAIN new |-> new[j][2]]), "X.slotwise")
             \cup Unless(ax.kind # "greywolf" \/ GreyWolfOK(Pairs(ax.a), new), "X.greywolf")
             \cup Unless(ax.kind # "pso" \/ PsoOK(IF k = 2 THEN prev ELSE Pairs(r.aux[k - 1].a), new, Pairs(ax.a)), "X.pso")
             \cup Unless(ax.kind # "bee" \/ BeeOK(ax.t, ax.limit), "X.bee")

FailsPhase(r, k, old) ==
    LET new == PopOf(r.snaps[k])
        mem == Mem(r)
    IN  Unless(SizeOK(r.sizecls, r.N, new), "C10.snap")
        \cup Unless(FeasiblePop(mem, new), "C01.snap")
        \cup Unless(CostTruthPop(r.dir, r.ftab, new), "C02.internal")
        \cup Unless(EvaluatedPop(Seen(r), new), "C02.evaluated")
        \cup Unless(k = 1 \/ ~r.elitist \/ Len(old) = 0 \/ Len(new) = 0 \/ Monotone(old, new), "C17.mono")
        \cup Unless(k > Len(r.calls) \/ ArgsInSpace(mem, r.calls[k]), "C05.arg")
        \cup FailsExt(r, k)

FailsReturn(r) ==
    LET mem == Mem(r)
        evo == [k \in DOMAIN r.evo |-> GenOf(r.evo[k])]
        snaps == [k \in DOMAIN r.snaps |-> PopOf(r.snaps[k])]
        best == Rep(r.best)
        C(j) == CritB(r.mc, r.hasFe, r.lefe, r.hasEs, r.pat, r.dec, j)
        late == \A k \in (Len(r.snaps) + 1)..Len(r.calls) : ArgsInSpace(mem, r.calls[k])
    IN  IF ~r.completed THEN Unless(late, "C05.arg")
        ELSE
        Unless(late, "C05.arg")
        \cup Unless(HistoryFaithful(r.dir, snaps, evo), "C15.hist")
        \cup Unless(\A k \in DOMAIN evo : \A a \in DOMAIN evo[k] : mem[evo[k][a].p], "C01.gen")
        \cup Unless(mem[best.p], "C01.best")
        \cup Unless(\A k \in DOMAIN evo : \A a \in DOMAIN evo[k] : evo[k][a].u = r.ftab[evo[k][a].p], "C02.cost")
        \cup Unless(best.u = r.ftab[best.p], "C02.bestcost")
        \cup Unless(best.fit /\ \A k \in DOMAIN evo : \A a \in DOMAIN evo[k] : evo[k][a].fit, "C02.fit")
        \cup Unless(best.u = r.dtab[best.p] /\ \A k \in DOMAIN evo : \A a \in DOMAIN evo[k] : evo[k][a].u = r.dtab[evo[k][a].p], "C02.decode")
        \cup Unless(Len(evo) >= 1 /\ \E a \in DOMAIN evo[Len(evo)] : evo[Len(evo)][a].p = best.p /\ evo[Len(evo)][a].u = best.u, "C03.member")
        \cup Unless(Len(evo) >= 1 /\ \A a \in DOMAIN evo[Len(evo)] : ~BetterU(r.dir, evo[Len(evo)][a].u, best.u), "C03.opt")
        \cup Unless(\A k \in DOMAIN evo : Len(evo[k]) >= 1 /\ Len(evo[k]) <= r.N, "C10.bounds")
        \cup Unless(r.sizecls # "exact" \/ \A k \in DOMAIN evo : Len(evo[k]) = r.N, "C10.exact")
        \cup Unless(~r.elitist \/ \A k \in DOMAIN evo : \A a \in DOMAIN evo[k] : ~BetterU(r.dir, evo[k][a].u, best.u), "C17.bestever")
        \cup Unless(TrendOK(r, evo, best), "C15.trend")
        \cup Unless(r.steps >= 1 /\ r.steps <= Len(r.lefe) /\ C(r.steps), "C04.early")
        \cup Unless(\A j \in 1..(r.steps - 1) : j > Len(r.lefe) \/ ~C(j), "C04.late")
        \cup Unless(r.steps <= r.mc, "C04.bounded")
        \cup Unless(r.gens = r.steps + 1 /\ r.nrates = r.steps /\ Len(r.snaps) = r.gens, "C04.len")
        \cup Unless(r.rate_ok, "C04.rate")

Tag(r, S) == {<<r.id, cl>> : cl \in S}

Init == i = 1 /\ g = 0 /\ pc = "enter" /\ pop = <<>> /\ bad = {}

Enter == /\ i <= Len(Recs) /\ pc = "enter"
         /\ bad' = bad \cup Tag(R, FailsEnter(R))
         /\ pc' = "run" /\ g' = 0 /\ pop' = <<>> /\ UNCHANGED i

Phase == /\ i <= Len(Recs) /\ pc = "run" /\ g < Len(R.snaps)
         /\ bad' = bad \cup Tag(R, FailsPhase(R, g + 1, pop))
         /\ pop' = PopOf(R.snaps[g + 1])          \* bind the logged state
         /\ g' = g + 1 /\ UNCHANGED <<i, pc>>

Return == /\ i <= Len(Recs) /\ pc = "run" /\ g = Len(R.snaps)
          /\ bad' = bad \cup Tag(R, FailsReturn(R))
          /\ i' = i + 1 /\ pc' = "enter" /\ g' = 0 /\ pop' = <<>>

Finish == /\ i = Len(Recs) + 1 /\ pc = "enter"
          /\ JsonSerialize(IOEnv.VERDICT_FILE, [consumed |-> Len(Recs), bad |-> SetToSeq(bad)])
          /\ pc' = "done" /\ UNCHANGED <<i, g, pop, bad>>

Next == Enter \/ Phase \/ Return \/ Finish
Spec == Init /\ [][Next]_vars
=============================================================================
