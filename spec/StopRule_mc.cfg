SPECIFICATION Spec
CONSTANTS
  MaxMC = 4
  Levels = 4
  Pats = {1, 2, 3}
  MDs = {0, 1, 2, 4}
  MaxRuns = 2
  Dev = "none"
INVARIANT Exact
INVARIANT NoLate
INVARIANT Bounded
INVARIANT EvoLen
INVARIANT CycleIsStep
PROPERTY Terminates
PROPERTY EachRunTerminates
CHECK_DEADLOCK FALSE
