---------------------------- MODULE TunerMachine ----------------------------
(***************************************************************************)
(* HyperTuner.execute / resolve as a state machine (C19, second half):     *)
(*   for every grid point, in order:  SetPoint  then  n_trials x RunTrial  *)
(*   Select (GridRel!TunerOptimal)   Resolve = SetPoint(best); RunTrial    *)
(* A grid point is a partial assignment key -> value; keys a point omits   *)
(* take the configuration's DEFAULT (0).  `seen` logs, for every run, the  *)
(* full parameter assignment the optimizer actually had.                   *)
(* Dev: "stale" (the first trial of a point runs before its parameters     *)
(* are applied), "skip" (the last point is never evaluated), "accumulate"  *)
(* (parameters are merged into the previous point's instead of replacing   *)
(* them), "resolvelast" (resolve() runs with the last evaluated point).    *)
(***************************************************************************)
EXTENDS GridRel, TLC

CONSTANTS Keys, Points, NT, Dev       \* Points: sequence of partial assignments (functions from a subset of Keys to 1..2)

KeysAB == {"a", "b"}
Pts3 == <<[a |-> 1, b |-> 1], [a |-> 2, b |-> 1], [a |-> 1]>>     \* the third point omits key b (a list of two sub-grids)

Default == [k \in Keys |-> 0]
Full(pt) == [k \in Keys |-> IF k \in DOMAIN pt THEN pt[k] ELSE 0]
Merge(cfg, pt) == [k \in Keys |-> IF k \in DOMAIN pt THEN pt[k] ELSE cfg[k]]

VARIABLES pc, idx, trial, cfg, seen, best, resolved
vars == <<pc, idx, trial, cfg, seen, best, resolved>>
NPts == IF Dev = "skip" THEN Len(Points) - 1 ELSE Len(Points)

Init == pc = "set" /\ idx = 1 /\ trial = 0 /\ cfg = Default /\ seen = <<>> /\ best = 0 /\ resolved = Default

SetPoint == /\ pc = "set" /\ idx <= NPts
            /\ IF Dev = "stale" THEN seen' = Append(seen, <<idx, cfg>>) /\ trial' = 1      \* a trial already ran on the old parameters
               ELSE seen' = seen /\ trial' = 0
            /\ cfg' = IF Dev = "accumulate" THEN Merge(cfg, Points[idx]) ELSE Full(Points[idx])
            /\ pc' = "run" /\ UNCHANGED <<idx, best, resolved>>
RunTrial == /\ pc = "run" /\ trial < NT
            /\ seen' = Append(seen, <<idx, cfg>>) /\ trial' = trial + 1
            /\ UNCHANGED <<pc, idx, cfg, best, resolved>>
NextPoint == /\ pc = "run" /\ trial = NT
             /\ idx' = idx + 1 /\ pc' = (IF idx + 1 <= NPts THEN "set" ELSE "select")
             /\ UNCHANGED <<trial, cfg, seen, best, resolved>>
Select == /\ pc = "select" /\ \E b \in 1..Len(Points) : best' = b
          /\ pc' = "resolve" /\ UNCHANGED <<idx, trial, cfg, seen, resolved>>
Resolve == /\ pc = "resolve"
           /\ resolved' = IF Dev = "resolvelast" THEN cfg ELSE Full(Points[best])
           /\ pc' = "done" /\ UNCHANGED <<idx, trial, cfg, seen, best>>
Next == SetPoint \/ RunTrial \/ NextPoint \/ Select \/ Resolve
Spec == Init /\ [][Next]_vars /\ WF_vars(Next)

Count(p) == Cardinality({k \in DOMAIN seen : seen[k][1] = p})
EveryPointOncePerTrial == pc \in {"select", "resolve", "done"} => \A p \in 1..Len(Points) : Count(p) = NT
RunSawItsPoint == \A k \in DOMAIN seen : seen[k][2] = Full(Points[seen[k][1]])
ResolveUsesBest == pc = "done" => resolved = Full(Points[best])
Finishes == <>(pc = "done")
=============================================================================
