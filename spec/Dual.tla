-------------------------------- MODULE Dual --------------------------------
(***************************************************************************)
(* C12: maximising f is exactly minimising -f.                             *)
(* Two runs in lock-step over the SAME stream of raw candidates and random *)
(* choices: run A is (max, f), run B is (min, -f).  Direction is handled   *)
(* at exactly two points (abstract.py:_fcn on the way in, Population /     *)
(* OptimizationResult on the way out); in between an optimizer sees only   *)
(* INTERNAL costs, which are identical in both runs.  Hence every step     *)
(* kind that compares internal costs keeps the runs in lock-step; a step   *)
(* that reads Agent.fitness (computed from the USER-sign cost) or the task *)
(* direction does not - which is why the property excludes such            *)
(* optimizers (Ant Lion weighs by fitness).                                *)
(***************************************************************************)
EXTENDS Integers, Sequences, FiniteSets, SequencesExt, TLC

CONSTANTS N, MC, Kinds, FT, Dev     \* Dev: "none" | "sortmax" (a helper sorts by the task's direction) | "outsign" (sign not restored)

FT1 == <<2, -1, 3>>
Space == {1, 2, 3}
Raw == 1..5
Corr(r) == CASE r = 4 -> 1 [] r = 5 -> 3 [] OTHER -> r
FA(p) == FT[p]              \* run A: user's objective f, task max
FB(p) == -FT[p]             \* run B: user's objective -f, task min
\* internal cost = Sign * objective
IntA(p) == -FA(p)
IntB(p) == FB(p)
\* fitness is computed from the user-sign cost: 1/(1+c) for c >= 0, 1+|c| for c < 0.  Only its ORDER matters here:
\* rank 2c+... we encode fitness order by a strictly decreasing map of the user-sign cost
FitKey(u) == -u             \* higher fitness <=> lower user-sign cost (both branches of the formula are decreasing)

VARIABLES pc, popA, popB, evoA, evoB, steps
vars == <<pc, popA, popB, evoA, evoB, steps>>

AgentA(r) == [p |-> Corr(r), c |-> IntA(Corr(r)), fit |-> FitKey(FA(Corr(r)))]
AgentB(r) == [p |-> Corr(r), c |-> IntB(Corr(r)), fit |-> FitKey(FB(Corr(r)))]
RepA(pop) == [k \in DOMAIN pop |-> [p |-> pop[k].p, u |-> (IF Dev = "outsign" THEN 1 ELSE -1) * pop[k].c]]
RepB(pop) == [k \in DOMAIN pop |-> [p |-> pop[k].p, u |-> pop[k].c]]

ByCost(a, b) == a.c < b.c
ByCostDesc(a, b) == a.c > b.c
SortA(p) == IF Dev = "sortmax" THEN SortSeq(p, ByCostDesc) ELSE SortSeq(p, ByCost)   \* a helper that honours the direction of run A
SortB(p) == SortSeq(p, ByCost)
Pick(old, new) == IF new.c < old.c THEN new ELSE old
Trim(p, n) == SubSeq(p, 1, IF Len(p) < n THEN Len(p) ELSE n)
ByFit(a, b) == a.fit > b.fit

Init == pc = "enter" /\ popA = <<>> /\ popB = <<>> /\ evoA = <<>> /\ evoB = <<>> /\ steps = 0
Enter == /\ pc = "enter"
         /\ \E rs \in [1..N -> Raw] : popA' = [k \in 1..N |-> AgentA(rs[k])] /\ popB' = [k \in 1..N |-> AgentB(rs[k])]
         /\ evoA' = <<RepA(popA')>> /\ evoB' = <<RepB(popB')>> /\ pc' = "run" /\ UNCHANGED steps

StepKind(kind, rs) ==
    LET nA == [k \in DOMAIN rs |-> AgentA(rs[k])]  nB == [k \in DOMAIN rs |-> AgentB(rs[k])]
    IN CASE kind = "greedy_each" -> /\ popA' = [k \in DOMAIN popA |-> Pick(popA[k], nA[k])]
                                    /\ popB' = [k \in DOMAIN popB |-> Pick(popB[k], nB[k])]
         [] kind = "greedy_pop" -> /\ popA' = [k \in DOMAIN popA |-> Pick(SortA(popA)[k], SortA(nA)[k])]
                                   /\ popB' = [k \in DOMAIN popB |-> Pick(SortB(popB)[k], SortB(nB)[k])]
         [] kind = "extend_trim" -> popA' = Trim(SortA(popA \o nA), N) /\ popB' = Trim(SortB(popB \o nB), N)
         [] kind = "replace_all" -> popA' = nA /\ popB' = nB
         \* a rule that reads fitness: the agent of highest fitness is copied over the first slot
         [] kind = "fitness_leader" -> /\ popA' = [popA EXCEPT ![1] = SortSeq(popA, ByFit)[1]]
                                       /\ popB' = [popB EXCEPT ![1] = SortSeq(popB, ByFit)[1]]
         [] OTHER -> FALSE
Step == /\ pc = "run" /\ steps < MC
        /\ \E kind \in Kinds : \E rs \in [1..N -> Raw] : StepKind(kind, rs)
        /\ evoA' = Append(evoA, RepA(popA')) /\ evoB' = Append(evoB, RepB(popB'))
        /\ steps' = steps + 1 /\ UNCHANGED pc
Stop == pc = "run" /\ steps >= 1 /\ pc' = "done" /\ UNCHANGED <<popA, popB, evoA, evoB, steps>>
Next == Enter \/ Step \/ Stop
Spec == Init /\ [][Next]_vars

DualOK == /\ Len(evoA) = Len(evoB)
          /\ \A g \in DOMAIN evoA : /\ Len(evoA[g]) = Len(evoB[g])
                                    /\ \A k \in DOMAIN evoA[g] : evoA[g][k].p = evoB[g][k].p /\ evoA[g][k].u = -evoB[g][k].u
\* the reported costs are the users' objectives
TruthA == \A g \in DOMAIN evoA : \A k \in DOMAIN evoA[g] : evoA[g][k].u = FA(evoA[g][k].p)
TruthB == \A g \in DOMAIN evoB : \A k \in DOMAIN evoB[g] : evoB[g][k].u = FB(evoB[g][k].p)
=============================================================================
