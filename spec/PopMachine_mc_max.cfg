SPECIFICATION Spec
CONSTANTS
  N = 2
  Dir = "max"
  MC = 2
  Kinds = {"greedy_each", "greedy_pop", "extend_trim"}
  FT <- FT2
  Dev = "none"
INVARIANT Feasible
INVARIANT ArgsOK
INVARIANT CostTruth
INVARIANT BestOK
INVARIANT SizeInv
INVARIANT HistoryOK
INVARIANT EvoLen
INVARIANT BestEver
PROPERTY HistoryAppendOnly
PROPERTY ElitistMonotone
PROPERTY StepRefinesFrame
PROPERTY Terminates
VIEW view
CHECK_DEADLOCK FALSE
