--------------------------- MODULE TraceInstance ----------------------------
(***************************************************************************)
(* Trace validation of call histories replayed on the REAL optimizer       *)
(* classes (C07, C08, C18; C09 for the objects passed in).  One ndjson     *)
(* record per replayed history: [id, opt, events]; events are the actions  *)
(* of Instance.tla with what the code did:                                 *)
(*   Ref(t, cfgid, digest)   reference run of the key in a freshly spawned *)
(*                           interpreter, fresh instance                   *)
(*   Construct(c, raised) / SetConfig(d, raised, after, equal_built)       *)
(*   Optimize(t, cfgid, raised, digest, caller_same, task_same,            *)
(*            earlier_same)                                                *)
(*   PerturbNp / PerturbStd                                                *)
(* Digests and configurations are interned ids (equality preserving).      *)
(* TLC replays the events on the model's variables (cfg, number of runs    *)
(* on the instance, reference table) and evaluates RunFunctional,          *)
(* ResultsImmutable, CallerUntouched, NoConfigRefuses, SetConfigEquals.    *)
(***************************************************************************)
EXTENDS Integers, Sequences, FiniteSets, SequencesExt, Json, IOUtils, TLC

Recs == ndJsonDeserialize(IOEnv.TRACE_FILE)
VARIABLES i, j, cfg, nruns, viaset, ref, refbad, bad
vars == <<i, j, cfg, nruns, viaset, ref, refbad, bad>>
Unless(ok, clause) == IF ok THEN {} ELSE {clause}
H == Recs[i]
E == H.events[j]

RefOf(key) == {r[2] : r \in {x \in ref : x[1] = key}}

FailsOptimize(e) ==
    IF cfg = 0
    THEN Unless(e.raised = "ValueError", "C18.refuse")
    ELSE LET key == <<e.cfgid, e.t>>
             same == \A d \in RefOf(key) : d = e.digest
         IN  IF key \in refbad \/ RefOf(key) = {}
             \* no successful reference for this key (it crashes in the reference interpreter too, or the configuration is not
             \* one of the two reference configurations): a crash is C06's business and there is nothing to compare with
             THEN Unless(e.caller_same, "C09.cfg") \cup Unless(e.task_same, "C09.task") \cup Unless(e.earlier_same, "C08.immutable")
             ELSE
             Unless(e.raised = "", IF nruns > 0 THEN "C08.crash" ELSE "C07.crash_fresh")
             \cup Unless(e.raised # "" \/ nruns > 0 \/ same, "C07.equal")           \* two fresh runs of one key differ
             \cup Unless(e.raised # "" \/ nruns = 0 \/ same, "C08.equal")           \* a used instance differs from a fresh one
             \cup Unless(e.raised # "" \/ ~viaset \/ same, "C18.runequal")          \* a run after set_config_parameters(d) differs from ctor(Config(**d))
             \cup Unless(e.caller_same, "C09.cfg")
             \cup Unless(e.task_same, "C09.task")
             \cup Unless(e.earlier_same, "C08.immutable")
             \cup Unless(e.cfgid = cfg, "C18.cfgdrift")

Fails(e) ==
    CASE e.ev = "Ref" -> Unless(~e.seedtype, "C07.seedtype")      \* np.random.seed(task.seed) rejected the documented integer seed
      [] e.ev = "Construct" -> Unless(e.raised = "", "C18.construct")
      [] e.ev = "SetConfig" -> IF e.d = -1
                               THEN Unless(e.raised = "ValidationError" /\ e.after = cfg, "C18.invalid")
                               ELSE Unless(e.raised = "" /\ e.equal_built, "C18.setconfig")
      [] e.ev = "Optimize" -> FailsOptimize(e)
      [] e.ev = "OptimizeBadCall" -> Unless(e.raised \in {"ValueError", "ValidationError"} /\ e.steps = 0, "C06.reject")
      [] OTHER -> {}

Init == i = 1 /\ j = 1 /\ cfg = 0 /\ nruns = 0 /\ viaset = FALSE /\ ref = {} /\ refbad = {} /\ bad = {}

Step == /\ i <= Len(Recs) /\ j <= Len(H.events)
        /\ bad' = bad \cup {<<H.id, cl>> : cl \in Fails(E)}
        /\ cfg' = CASE E.ev = "Construct" -> (IF E.raised = "" THEN E.c ELSE 0)
                    [] E.ev = "SetConfig" -> E.after
                    [] E.ev = "Optimize" -> E.cfgafter
                    [] OTHER -> cfg
        /\ nruns' = CASE E.ev = "Construct" -> 0
                      [] E.ev = "Optimize" /\ E.raised = "" /\ cfg # 0 -> nruns + 1
                      [] OTHER -> nruns
        /\ viaset' = CASE E.ev = "Construct" -> FALSE
                       [] E.ev = "SetConfig" /\ E.raised = "" -> TRUE
                       [] OTHER -> viaset
        /\ ref' = IF E.ev = "Ref" /\ E.raised = "" THEN ref \cup {<<<<E.cfgid, E.t>>, E.digest>>} ELSE ref
        /\ refbad' = IF E.ev = "Ref" /\ E.raised # "" THEN refbad \cup {<<E.cfgid, E.t>>} ELSE refbad
        /\ j' = j + 1 /\ UNCHANGED i

NextHist == /\ i <= Len(Recs) /\ j = Len(H.events) + 1
            /\ i' = i + 1 /\ j' = 1 /\ cfg' = 0 /\ nruns' = 0 /\ viaset' = FALSE /\ ref' = {} /\ refbad' = {} /\ UNCHANGED bad

Finish == /\ i = Len(Recs) + 1 /\ j = 1
          /\ JsonSerialize(IOEnv.VERDICT_FILE, [consumed |-> Len(Recs), bad |-> SetToSeq(bad)])
          /\ j' = 2 /\ UNCHANGED <<i, cfg, nruns, viaset, ref, refbad, bad>>

Next == Step \/ NextHist \/ Finish
Spec == Init /\ [][Next]_vars
=============================================================================
