------------------------------ MODULE GridRel -------------------------------
(***************************************************************************)
(* ParameterGrid (hypertuner.py) and the selection rule of HyperTuner      *)
(* (property C19), constant-free.                                          *)
(* A grid is a sequence of sub-grids; a sub-grid is a sequence of value    *)
(* counts, one per key IN SORTED KEY ORDER (<<>> is the empty dict, which  *)
(* denotes one point with default parameters).  A point of a sub-grid is   *)
(* a sequence of value indexes (1-based), one per key.                     *)
(***************************************************************************)
EXTENDS Integers, Sequences, FiniteSets, SequencesExt, Functions

Prod(s) == FoldLeft(LAMBDA a, b : a * b, 1, s)
SubLen(sub) == Prod(sub)
GridLen(grid) == FoldLeft(LAMBDA a, s : a + SubLen(s), 0, grid)

\* iteration order of itertools.product over the sorted keys: the LAST key cycles fastest
\* the k-th point (0-based) of a sub-grid in that order
PointAt(sub, k) ==
    [j \in DOMAIN sub |-> ((k \div Prod(SubSeq(sub, j + 1, Len(sub)))) % sub[j]) + 1]
SubSeqOfPoints(sub) == [k \in 1..SubLen(sub) |-> PointAt(sub, k - 1)]
\* the whole grid: <<index of the sub-grid, point>> in iteration order
GridSeq(grid) ==
    FoldLeft(LAMBDA acc, g : acc \o [k \in 1..SubLen(grid[g]) |-> <<g, PointAt(grid[g], k - 1)>>], <<>>, [g \in DOMAIN grid |-> g])

\* __getitem__ as coded: walk the sub-grids; inside one, divmod over the keys in REVERSED sorted order
\* ind, offset = divmod(ind, n) over the keys from the last sorted key to the first
RECURSIVE Peel(_, _, _, _)
Peel(sub, j, ind, acc) ==
    IF j = 0 THEN acc
    ELSE Peel(sub, j - 1, ind \div sub[j], [acc EXCEPT ![j] = (ind % sub[j]) + 1])
RECURSIVE GetItem(_, _, _)
GetItem(grid, g, ind) ==
    IF g > Len(grid) THEN <<0, <<>>>>                       \* IndexError
    ELSE LET sub == grid[g]  total == SubLen(sub)
         IN IF ind < total
            THEN <<g, Peel(sub, Len(sub), ind, [j \in DOMAIN sub |-> 0])>>
            ELSE GetItem(grid, g + 1, ind - total)
GridAt(grid, ind) == GetItem(grid, 1, ind)

-----------------------------------------------------------------------------
(* selection                                                               *)
Sum(s) == FoldLeft(LAMBDA a, b : a + b, 0, s)
\* scores[p] = sequence of the best costs of the trials of grid point p (all points have the same number of trials)
BetterMean(dir, a, b) == IF dir = "min" THEN Sum(a) < Sum(b) ELSE Sum(a) > Sum(b)
TunerOptimal(scores, dir, best) ==
    /\ best \in DOMAIN scores
    /\ \A p \in DOMAIN scores : ~BetterMean(dir, scores[p], scores[best])
=============================================================================
