------------------------------- MODULE Select -------------------------------
(***************************************************************************)
(* Selection helpers and replacement primitives of pyvolutionary           *)
(* (helpers.py: sort_by_cost, sort_by_cost_indexes, sort_and_trim,         *)
(*  best_/worst_agent(s)(_indexes), special_agents;                        *)
(*  abstract.py: _greedy_select_agent, _greedy_select_population,          *)
(*  _extend_and_trim_population, _replace_and_trim_population,              *)
(*  _generate_group_population).                                           *)
(*                                                                         *)
(* A population is a sequence of costs; an agent is identified by its      *)
(* index in the caller's list, so "is a member", "not reordered" and       *)
(* "not duplicated" are expressible.  Every law is a RELATION between the  *)
(* input and an answer (a sequence of indexes): where the property leaves  *)
(* freedom (ties) every valid answer is accepted.  The functional          *)
(* refinements *AsCoded transcribe what the code does (stable sort,        *)
(* reverse=True for max; argsort reversed for max) and TLC checks          *)
(* refinement => relation for every case of the bounded space.  The same   *)
(* relations judge the answers of the real helpers (TraceSelect).          *)
(***************************************************************************)
EXTENDS SelectRel

-----------------------------------------------------------------------------
(* Functional refinements: what helpers.py / abstract.py do                *)

CONSTANT Dev      \* "none" | "ignoredir" | "wrongend" | "lesseq" | "modgroups" : named deviations, must break a law

\* stable sort (list.sort with reverse=True keeps the original order of equal elements)
PosStable(pop, d, i) ==
    LET dd == IF Dev = "ignoredir" THEN "min" ELSE d
    IN 1 + Cardinality({j \in Idx(pop) : Better(dd, pop[j], pop[i]) \/ (pop[j] = pop[i] /\ j < i)})
SortAsCoded(pop, d) == [k \in Idx(pop) |-> CHOOSE i \in Idx(pop) : PosStable(pop, d, i) = k]
\* np.argsort ascending, then reversed for max (ties come out in reversed index order)
ArgsortAsCoded(pop, d) ==
    LET asc == SortAsCoded(pop, "min")
    IN IF d = "max" /\ Dev # "ignoredir" THEN Reverse(asc) ELSE asc
TakeN(s, n) == SubSeq(s, 1, MinN(n, Len(s)))
LastN(s, n) == SubSeq(s, Len(s) - MinN(n, Len(s)) + 1, Len(s))
BestAsCoded(pop, n, d) == IF Dev = "wrongend" THEN LastN(SortAsCoded(pop, d), n) ELSE TakeN(SortAsCoded(pop, d), n)
WorstAsCoded(pop, n, d) == IF Dev = "wrongend" THEN TakeN(SortAsCoded(pop, d), n) ELSE LastN(SortAsCoded(pop, d), n)
BestIdxAsCoded(pop, n, d) == TakeN(ArgsortAsCoded(pop, d), n)
WorstIdxAsCoded(pop, n, d) == LastN(ArgsortAsCoded(pop, d), n)
SortTrimAsCoded(pop, n) == TakeN(SortAsCoded(pop, "min"), n)
GreedyAsCoded(old, new) == IF (IF Dev = "lesseq" THEN new <= old ELSE new < old) THEN "new" ELSE "old"
GreedyPopAsCoded(pop, new) ==
    LET a == SortAsCoded(pop, "min")  b == SortAsCoded(new, "min")
    IN [k \in Idx(pop) |-> IF GreedyAsCoded(pop[a[k]], new[b[k]]) = "new" THEN <<1, b[k]>> ELSE <<0, a[k]>>]
ExtendTrimAsCoded(pop, new, N) ==
    IF Len(new) = 0 THEN [i \in Idx(pop) |-> i] ELSE SortTrimAsCoded(pop \o new, N)
GroupsAsCoded(size, ng, na, resid) ==
    LET slice(lo, hi) == [k \in 1..(IF MinN(hi, size) - lo + 1 > 0 THEN MinN(hi, size) - lo + 1 ELSE 0) |-> lo + k - 1]
        base == [g \in 1..ng |-> slice((g-1)*na + 1, g*na)]
        r == IF Dev = "modgroups" THEN size % ng ELSE size - ng * na
    IN IF resid /\ r > 0 THEN Append(base, slice(size - r + 1, size)) ELSE base

-----------------------------------------------------------------------------
(* The bounded case space (shared by the exhaustive check and by the       *)
(* generator that feeds the real helpers)                                  *)

CONSTANTS Alpha,      \* cost alphabet (small integers; the extremes stand for -inf / +inf)
          MaxSize,    \* populations of size 1..MaxSize
          MaxPair     \* greedy / extend cases: populations of size 1..MaxPair

Alpha5 == {-99, -1, 0, 2, 99}
Alpha4 == {-99, -1, 0, 99}

Pops(k) == UNION {[1..s -> Alpha] : s \in 1..k}
Pops0(k) == UNION {[1..s -> Alpha] : s \in 0..k}

\* Two-level enumeration (family, size, first cost) -> case, so that TLC's workers share the cases.
VARIABLE c
Init == c \in {[kind |-> "pre", fam |-> f, s |-> s, head |-> a] :
                 f \in {"sel", "greedy", "ext", "group"}, s \in 1..(2*MaxSize), a \in Alpha}
Heads(s, a) == {p \in [1..s -> Alpha] : p[1] = a}
NextSel == c.fam = "sel" /\ c.s <= MaxSize /\ \E p \in Heads(c.s, c.head), n \in 0..c.s, d \in Dirs :
              c' = [kind |-> "sel", pop |-> p, n |-> n, dir |-> d]
NextGreedy == c.fam = "greedy" /\ c.s <= MaxPair /\ \E p \in Heads(c.s, c.head), q \in [1..c.s -> Alpha] :
              c' = [kind |-> "greedy", pop |-> p, new |-> q]
NextExt == c.fam = "ext" /\ c.s <= MaxPair /\ \E t \in 0..MaxPair : \E p \in Heads(c.s, c.head), q \in [1..t -> Alpha] :
              c' = [kind |-> "ext", pop |-> p, new |-> q, N |-> c.s]
NextGroup == c.fam = "group" /\ c.head = (CHOOSE a \in Alpha : TRUE) /\ \E g \in 1..c.s, r \in BOOLEAN : \E na \in 1..(c.s \div g) :
              c' = [kind |-> "group", size |-> c.s, ng |-> g, na |-> na, resid |-> r]
Next == c.kind = "pre" /\ (NextSel \/ NextGreedy \/ NextExt \/ NextGroup)
Spec == Init /\ [][Next]_c

-----------------------------------------------------------------------------
(* Laws of the functional refinement (exhaustive, TLC)                     *)

LawBest  == c.kind = "sel" => ValidBest(c.pop, c.n, c.dir, BestAsCoded(c.pop, c.n, c.dir))
LawWorst == c.kind = "sel" => ValidWorst(c.pop, c.n, c.dir, WorstAsCoded(c.pop, c.n, c.dir))
LawBestIdx == c.kind = "sel" =>
    /\ ValidBest(c.pop, c.n, c.dir, BestIdxAsCoded(c.pop, c.n, c.dir))
    /\ SameCosts(c.pop, BestIdxAsCoded(c.pop, c.n, c.dir), BestAsCoded(c.pop, c.n, c.dir))
LawWorstIdx == c.kind = "sel" =>
    /\ ValidWorst(c.pop, c.n, c.dir, WorstIdxAsCoded(c.pop, c.n, c.dir))
    /\ SameCosts(c.pop, WorstIdxAsCoded(c.pop, c.n, c.dir), WorstAsCoded(c.pop, c.n, c.dir))
LawSortTrim == c.kind = "sel" => ValidSortTrim(c.pop, c.n, SortTrimAsCoded(c.pop, c.n))
LawSort == c.kind = "sel" => ValidSort(c.pop, c.dir, SortAsCoded(c.pop, c.dir))
LawGreedy == c.kind = "greedy" =>
    /\ \A i \in Idx(c.pop) : GreedyAsCoded(c.pop[i], c.new[i]) = GreedyPick(c.pop[i], c.new[i])
    /\ ValidGreedyPop(c.pop, c.new, GreedyPopAsCoded(c.pop, c.new))
LawExtend == c.kind = "ext" =>
    /\ ValidExtendTrim(c.pop, c.new, c.N, ExtendTrimAsCoded(c.pop, c.new, c.N))
    /\ (Len(c.new) > 0 => ValidReplaceTrim(c.new, c.N, SortTrimAsCoded(c.new, c.N)))
LawGroups == c.kind = "group" => ValidGroups(c.size, c.ng, c.na, c.resid, GroupsAsCoded(c.size, c.ng, c.na, c.resid))

\* consequences used by PopMachine (C03, C10, C17): sizes and elitism of the primitives
LawSizes ==
    /\ c.kind = "greedy" => Len(GreedyPopAsCoded(c.pop, c.new)) = Len(c.pop)
    /\ c.kind = "ext" => Len(ExtendTrimAsCoded(c.pop, c.new, c.N)) = c.N
LawElitist ==
    /\ c.kind = "greedy" =>
          LET out == GreedyPopAsCoded(c.pop, c.new)
          IN \A i \in Idx(c.pop) : \E k \in DOMAIN out : CostOfO(c.pop, c.new, out[k]) <= c.pop[i]
    /\ c.kind = "ext" =>
          LET out == ExtendTrimAsCoded(c.pop, c.new, c.N)
              all == c.pop \o c.new
          IN \A i \in Idx(c.pop) : \E k \in DOMAIN out : all[out[k]] <= c.pop[i] \/ Len(out) = 0
=============================================================================
