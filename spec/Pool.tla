-------------------------------- MODULE Pool --------------------------------
(***************************************************************************)
(* The thread / process hand-off of abstract.py (C11):                     *)
(*   with get_pool_executor(mode, workers) as executor:                    *)
(*       futures = [executor.submit(item) for item in items]               *)
(*       results = get_pool_results(futures)      # as_completed order     *)
(* Submit, Start(w, t), Finish(w) and Gather are separate, independently   *)
(* enabled steps, so TLC explores every interleaving of the workers and    *)
(* every completion / gathering order.                                     *)
(* Random draws: an item that builds a random agent consumes one draw      *)
(* <<stream, index>>.  thread mode: one shared stream, draws are atomic.   *)
(* process mode: "reseed" - every item gets a seed drawn in the parent     *)
(* (its own stream); "fork" - every worker starts from a COPY of the       *)
(* parent's stream (the pinned behaviour), so two workers replay the same  *)
(* numbers.                                                                *)
(***************************************************************************)
EXTENDS Integers, Sequences, FiniteSets, SequencesExt, TLC

CONSTANTS K,          \* number of submitted items
          W,          \* number of workers
          Mode,       \* "thread" | "reseed" | "fork"
          Dev         \* "none" | "dropfuture" | "dupfuture"

Items == 1..K
Workers == 1..W

VARIABLES pending,    \* items submitted, not yet started
          running,    \* running[w] = item or 0
          finished,   \* items finished, not yet gathered
          gathered,   \* sequence of gathered items (the result list)
          draws,      \* draws[t] = <<stream, index>> consumed by item t (<<0,0>> = none yet)
          shared,     \* next index of the shared stream (thread mode)
          local,      \* local[w] = draws made by worker w from its own copy (fork mode)
          pc
vars == <<pending, running, finished, gathered, draws, shared, local, pc>>

Init == /\ pending = {} /\ running = [w \in Workers |-> 0] /\ finished = {} /\ gathered = <<>>
        /\ draws = [t \in Items |-> <<0, 0>>] /\ shared = 1 /\ local = [w \in Workers |-> 0] /\ pc = "submit"

Submit == /\ pc = "submit" /\ pending' = Items /\ pc' = "pool"
          /\ UNCHANGED <<running, finished, gathered, draws, shared, local>>

Start(w, t) ==
    /\ pc = "pool" /\ running[w] = 0 /\ t \in pending
    /\ pending' = pending \ {t} /\ running' = [running EXCEPT ![w] = t]
    /\ CASE Mode = "thread" -> draws' = [draws EXCEPT ![t] = <<1, shared>>] /\ shared' = shared + 1 /\ UNCHANGED local
         [] Mode = "reseed" -> draws' = [draws EXCEPT ![t] = <<1 + t, 1>>] /\ UNCHANGED <<shared, local>>
         [] Mode = "fork"   -> draws' = [draws EXCEPT ![t] = <<1, shared + local[w]>>]        \* copy of the parent's stream
                               /\ local' = [local EXCEPT ![w] = local[w] + 1] /\ UNCHANGED shared
    /\ UNCHANGED <<finished, gathered, pc>>

Finish(w) ==
    /\ pc = "pool" /\ running[w] # 0
    /\ finished' = finished \cup {running[w]} /\ running' = [running EXCEPT ![w] = 0]
    /\ UNCHANGED <<pending, gathered, draws, shared, local, pc>>

\* as_completed: any finished future, in any order
Gather ==
    /\ pc = "pool" /\ finished # {}
    /\ \E t \in finished :
         /\ gathered' = (IF Dev = "dupfuture" /\ Len(gathered) = 0 THEN <<t, t>> ELSE Append(gathered, t))
         /\ finished' = (IF Dev = "dropfuture" THEN {} ELSE finished \ {t})        \* deviation: futures finished meanwhile are lost
    /\ UNCHANGED <<pending, running, draws, shared, local, pc>>

Close == /\ pc = "pool" /\ pending = {} /\ finished = {} /\ \A w \in Workers : running[w] = 0
         /\ pc' = "closed" /\ UNCHANGED <<pending, running, finished, gathered, draws, shared, local>>

Next == Submit \/ (\E w \in Workers, t \in Items : Start(w, t)) \/ (\E w \in Workers : Finish(w)) \/ Gather \/ Close
Spec == Init /\ [][Next]_vars /\ WF_vars(Next)

-----------------------------------------------------------------------------
RangeS(s) == {s[k] : k \in DOMAIN s}
\* every pooled evaluation contributes exactly one result: none lost, none duplicated
ExactlyOnce == pc = "closed" => Len(gathered) = K /\ RangeS(gathered) = Items
NeverTwice == \A a, b \in DOMAIN gathered : a # b => gathered[a] # gathered[b]
\* workers do not replay one another's random stream
DistinctDraws == \A s, t \in Items : s # t /\ draws[s] # <<0, 0>> /\ draws[t] # <<0, 0>> => draws[s] # draws[t]
\* the set of results does not depend on the schedule (deterministic items, e.g. pairwise greedy selection)
ScheduleIndependentSet == pc = "closed" => RangeS(gathered) = Items
Closes == <>(pc = "closed")
=============================================================================
