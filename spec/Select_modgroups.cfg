SPECIFICATION Spec
CONSTANTS
  Dev = "modgroups"
  Alpha <- Alpha5
  MaxSize = 4
  MaxPair = 3
INVARIANT LawBest
INVARIANT LawWorst
INVARIANT LawBestIdx
INVARIANT LawWorstIdx
INVARIANT LawSortTrim
INVARIANT LawSort
INVARIANT LawGreedy
INVARIANT LawExtend
INVARIANT LawGroups
INVARIANT LawSizes
INVARIANT LawElitist
CHECK_DEADLOCK FALSE
