SPECIFICATION Spec
CONSTANTS
  N = 2
  MC = 2
  Kinds = {"greedy_each"}
  FT <- FT1
  Dev = "outsign"
INVARIANT DualOK
INVARIANT TruthA
INVARIANT TruthB
CHECK_DEADLOCK FALSE
