SPECIFICATION Spec
CONSTANTS
  MaxN = 3
  MaxM = 3
  NT = 2
  ModeVals = {1, 2, 3, 9}
  Dev = "accumulate"
INVARIANT LawAccept
INVARIANT LawPairs
INVARIANT LawModes
INVARIANT LawTables
INVARIANT LawExport
CHECK_DEADLOCK FALSE
