----------------------------- MODULE DomainRel ------------------------------
(***************************************************************************)
(* Variables, their domains, and the laws of randomize / correct / decode  *)
(* / get_bounds (property C13), and the composition of variables into a    *)
(* task's search space (C14).  Used by PopMachine (C01, C05: membership).  *)
(*                                                                         *)
(* Encoding (TLC has integers only, and cannot compare values of different *)
(* types, so everything is an integer):                                    *)
(*   numbers are half-integers encoded x2 (the value 1.5 is 3);            *)
(*   special floats are sentinels: NAN, PINF, NINF, PHUGE (1e300), NHUGE;  *)
(*   ERR stands for "the call raised", OFF for "a float off the grid".     *)
(*   A permutation value is a sequence of plain small integers.            *)
(* Variable definitions are records [t, lb, ub, n, kids]:                  *)
(*   cont(lb,ub) | disc(n) | perm(n) | multi-variables                     *)
(*   contmulti / multiobj / discmulti / bin with kids = child definitions. *)
(* Constant-free and variable-free.                                        *)
(***************************************************************************)
EXTENDS Integers, Sequences, FiniteSets, SequencesExt

NAN == 9999
PINF == 9001
NINF == -9001
PHUGE == 8001
NHUGE == -8001
ERR == 7070
OFF == 7777
Specials == {NAN, PINF, NINF, PHUGE, NHUGE}
IsGrid(v) == v > -8000 /\ v < 8000
Finite(v) == IsGrid(v) \/ v \in {PHUGE, NHUGE}        \* "every finite input" of C13: huge values are finite floats

Cont(lb, ub) == [t |-> "cont", lb |-> lb, ub |-> ub, n |-> 0, kids |-> <<>>]
Disc(n) == [t |-> "disc", lb |-> 0, ub |-> 0, n |-> n, kids |-> <<>>]
Perm(n) == [t |-> "perm", lb |-> 0, ub |-> 0, n |-> n, kids |-> <<>>]
Multi(t, kids) == [t |-> t, lb |-> 0, ub |-> 0, n |-> Len(kids), kids |-> kids]
IsMulti(d) == d.t \in {"contmulti", "multiobj", "discmulti", "bin"}

\* a definition the constructor must accept
ValidDef(d) ==
    CASE d.t = "cont" -> d.lb < d.ub
      [] d.t = "disc" -> d.n >= 1
      [] d.t = "perm" -> d.n >= 1
      [] d.t \in {"contmulti", "multiobj"} -> \A k \in DOMAIN d.kids : d.kids[k].lb < d.kids[k].ub
      [] d.t = "discmulti" -> \A k \in DOMAIN d.kids : d.kids[k].n >= 1
      [] d.t = "bin" -> d.n >= 1
      [] OTHER -> FALSE

\* what the constructors must accept: valid bounds, equal-length bound lists, at least one coordinate
Accept(d, mismatch) == ValidDef(d) /\ ~mismatch /\ (IsMulti(d) => (IF d.t = "bin" THEN d.n >= 1 ELSE Len(d.kids) >= 1))

Size(d) == IF IsMulti(d) THEN Len(d.kids) ELSE 1       \* a permutation is ONE coordinate (holding a list)

-----------------------------------------------------------------------------
(* scalar domains                                                          *)
InCont(d, v) == IsGrid(v) /\ d.lb <= v /\ v <= d.ub
InDisc(d, v) == IsGrid(v) /\ v % 2 = 0 /\ 0 <= v /\ v <= 2 * (d.n - 1)     \* an integer index 0..n-1
IsPermOf(n, p) == Len(p) = n /\ {p[k] : k \in DOMAIN p} = 0..(n-1)
InScalar(d, v) == IF d.t = "cont" THEN InCont(d, v) ELSE InDisc(d, v)

\* correct, as a RELATION: into the domain; a member is left unchanged
CorrectRelScalar(d, v, out) == InScalar(d, out) /\ (InScalar(d, v) => out = v)
CorrectRelPerm(n, v, out) == IsPermOf(n, out) /\ (IsPermOf(n, v) => out = v)
\* the same for a candidate given in HALF units (code 3 = 1.5): fractional candidates are never members
PermValue(v) == IF \A k \in DOMAIN v : v[k] % 2 = 0 THEN [k \in DOMAIN v |-> v[k] \div 2] ELSE <<>>
CorrectRelPermH(n, v, out) == IsPermOf(n, out) /\ (IsPermOf(n, PermValue(v)) => out = PermValue(v))

\* intended functional refinements
Clip(v, lo, hi) == IF v < lo THEN lo ELSE IF v > hi THEN hi ELSE v
CorrectContIntended(d, v) == IF v = NAN THEN d.lb ELSE Clip(v, d.lb, d.ub)
TruncEven(c) == c - (c % 2)                      \* int() of a non-negative half-integer
CorrectDiscIntended(d, v) == IF v = NAN THEN 0 ELSE TruncEven(Clip(v, 0, 2 * (d.n - 1)))
\* as coded: NaN passes through np.clip (continuous) and int(nan) raises (discrete)
CorrectContAsCoded(d, v) == IF v = NAN THEN NAN ELSE Clip(v, d.lb, d.ub)
CorrectDiscAsCoded(d, v) == IF v = NAN THEN ERR ELSE TruncEven(Clip(v, 0, 2 * (d.n - 1)))

\* permutations: stable argsort (0-based) and the rank transform argsort o argsort
ArgsortPos(v, i) == Cardinality({j \in DOMAIN v : v[j] < v[i] \/ (v[j] = v[i] /\ j < i)})   \* 0-based rank of element i
Ranks(v) == [i \in DOMAIN v |-> ArgsortPos(v, i)]
Argsort(v) == [k \in DOMAIN v |-> (CHOOSE i \in DOMAIN v : ArgsortPos(v, i) = k - 1) - 1]
CorrectPermIntended(v) == Ranks(v)
CorrectPermArgsort(v) == Argsort(v)               \* PermutationVariable.correct on the pinned tree

\* decode of a corrected value: the declared choice with that index; for a permutation the items in the
\* corrected index order (items are identified with the index the variable's own encoder gives them)
DecodeRelDisc(d, c, label) == InDisc(d, c) /\ label = c \div 2          \* label = index of the declared choice
DecodeRelPerm(n, c, labels) == IsPermOf(n, c) /\ labels = c

-----------------------------------------------------------------------------
(* task = sequence of definitions                                          *)
Sum(s) == FoldLeft(LAMBDA a, b : a + b, 0, s)
Dim(task) == Sum([k \in DOMAIN task |-> Size(task[k])])
\* the flattened scalar definitions, one per coordinate (a perm is its own coordinate)
FlattenDefs(task) == FoldLeft(LAMBDA acc, d : acc \o (IF IsMulti(d) THEN d.kids ELSE <<d>>), <<>>, task)
\* offset of variable k's slice
Offset(task, k) == Sum([j \in 1..(k-1) |-> Size(task[j])])

\* per-coordinate bounds: continuous exact; discrete 0 and an upper bound that truncates to n-1
BoundsOKCoord(d, lb, ubfloor) ==
    IF d.t = "cont" THEN lb = d.lb /\ ubfloor = d.ub
    ELSE lb = 0 /\ ubfloor = 2 * (d.n - 1)
=============================================================================
