SPECIFICATION Spec
CONSTANTS
  MaxN = 3
  MaxM = 3
  NT = 2
  ModeVals = {1, 2, 3, 9}
  Dev = "taskfirst"
INVARIANT LawAccept
INVARIANT LawPairs
INVARIANT LawModes
CHECK_DEADLOCK FALSE
