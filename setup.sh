#!/bin/bash
# Offline setup: nothing to build (pure Python + TLA+); verify the tools and parse every specification.
set -e
cd "$(dirname "$0")"
mkdir -p .work evidence
java -version 2>&1 | head -1
/venv/bin/python -c "import numpy, pydantic, pandas; print('python deps ok')"
for f in spec/*.tla; do
  (cd spec && java -cp /opt/veriftools/tla/tla2tools.jar:/opt/veriftools/tla/CommunityModules-deps.jar tla2sany.SANY "$(basename "$f")" > ../.work/sany.out 2>&1) || { cat .work/sany.out; echo "SANY failed on $f"; exit 1; }
  if grep -q "Semantic errors\|Parse Error\|Fatal" .work/sany.out; then cat .work/sany.out; echo "SANY errors in $f"; exit 1; fi
done
PYTHONPATH="$(pwd):${VERIF_REPO:-/repo}" /venv/bin/python tools/selftest_alpha.py
echo "setup ok: $(ls spec/*.tla | wc -l) modules parsed"
