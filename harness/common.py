"""Shared plumbing of all checks: verdict collection, known findings, evidence, exit codes."""
from __future__ import annotations

import hashlib
import json
import os
import sys
import time
from pathlib import Path

ROOT = Path(__file__).resolve().parent.parent
WORK = Path(os.environ.get("VERIF_WORK", ROOT / ".work"))
REPO = Path(os.environ.get("VERIF_REPO", "/repo"))
# evidence is only ever written for /repo itself; runs against a scratch copy (mutation self-tests) go elsewhere
EVID = ROOT / "evidence" if str(REPO) == "/repo" else WORK / "evidence-scratch"
FINDINGS = ROOT / "known_findings.json"


def load_findings() -> list[dict]:
    if not FINDINGS.exists():
        return []
    return json.loads(FINDINGS.read_text()).get("findings", [])


def jdefault(o):
    import numpy as np
    if isinstance(o, (np.integer,)):
        return int(o)
    if isinstance(o, (np.floating,)):
        return float(o)
    if isinstance(o, np.ndarray):
        return o.tolist()
    if isinstance(o, (set, frozenset)):
        return sorted(o, key=repr)
    if isinstance(o, Path):
        return str(o)
    return repr(o)


class Check:
    """Collects what one run of one property's check saw; decides the exit code at the end."""

    def __init__(self, pid: str, tier: str, seed: int, level: str = "model_checking"):
        self.pid, self.tier, self.seed, self.level = pid, tier, seed, level
        self.t0 = time.time()
        self.findings = [f for f in load_findings() if f["property"] == pid]
        self.hit: dict[int, int] = {}            # index of finding -> occurrences
        self.violations: list[dict] = []         # unlisted
        self.seen_keys: set[str] = set()
        self.states = 0
        self.transitions = 0
        self.models: list[dict] = []             # one record per TLC run
        self.traces = 0
        self.evaluations = 0
        self.samples: list = []
        self.distinct: set = set()
        self.assumptions: list[str] = []
        self.extra: dict = {}
        self.canaries: list[dict] = []
        self.machinery: list[str] = []
        self.evid_dir = None                      # replays write their evidence elsewhere

    # ------------------------------------------------------------------ TLC bookkeeping
    def model(self, name: str, res, *, expect: str | None = None, note: str = "") -> None:
        """Record a TLC run. expect=None: must hold.  expect='X': invariant/property X must be violated
        (deviation configurations: they prove the invariant is not vacuous)."""
        self.states += res.states
        self.transitions += res.transitions
        rec = {"model": name, "states": res.states, "distinct": res.distinct, "depth": res.depth,
               "wall_s": round(res.wall_s, 2), "expect": expect or "holds", "violated": res.violated, "note": note}
        if getattr(res, "coverage", None):
            rec["action_coverage"] = res.coverage          # TLC -coverage 1: action -> states generated through it
            rec["actions_never_taken"] = sorted(a for a, n in res.coverage.items() if n == 0)
        self.models.append(rec)
        if expect is None:
            if not res.ok:
                self.violation(f"{self.pid}.model", {"model": name, "violated": ",".join(res.violated)},
                               {"tlc_tail": res.out.splitlines()[-60:]})
        else:
            wanted = (expect,) if isinstance(expect, str) else tuple(expect)
            if not any(w in res.violated for w in wanted):
                self.machinery.append(f"deviation model {name} was expected to violate {expect} but TLC reported "
                                      f"{res.violated or 'no error'}: the invariant may be vacuous")

    # ------------------------------------------------------------------ verdicts
    def violation(self, clause: str, key: dict, witness: dict | None = None) -> None:
        """Report a failed clause. `key` identifies *what* fails (optimizer, call site, ...), never the input."""
        full = {"clause": clause, **{k: str(v) for k, v in key.items()}}
        for i, f in enumerate(self.findings):
            if all(full.get(k) == str(v) for k, v in f["match"].items()):
                self.hit[i] = self.hit.get(i, 0) + 1
                return
        ks = json.dumps(full, sort_keys=True)
        if ks in self.seen_keys:
            for v in self.violations:
                if v["_ks"] == ks:
                    v["count"] += 1
            return
        self.seen_keys.add(ks)
        self.violations.append({"_ks": ks, "key": full, "witness": witness or {}, "count": 1})

    def canary(self, name: str, rejected: bool, detail: str = "") -> None:
        self.canaries.append({"canary": name, "rejected": rejected, "detail": detail})
        if not rejected:
            self.machinery.append(f"canary {name} was ACCEPTED: the trace specification does not bind ({detail})")

    def sample(self, s, limit: int = 6) -> None:
        if len(self.samples) < limit:
            self.samples.append(s)

    # ------------------------------------------------------------------ finish
    def finish(self, rule: str, explanation: str = "", exhaustive: bool | None = None) -> int:
        wall = time.time() - self.t0
        evid = self.evid_dir or EVID
        evid.mkdir(parents=True, exist_ok=True)
        replay_dir = WORK / "replays"
        replay_dir.mkdir(parents=True, exist_ok=True)
        lines = []
        for i, n in sorted(self.hit.items()):
            f = self.findings[i]
            lines.append(f"KNOWN-FINDING: property={self.pid} {f['what']} [seen {n}x; match={json.dumps(f['match'], sort_keys=True)}]")
        vio_out = []
        for v in self.violations:
            h = hashlib.sha1(v["_ks"].encode()).hexdigest()[:12]
            path = replay_dir / f"{self.pid}-{h}.json"
            path.write_text(json.dumps({"property": self.pid, "key": v["key"], "witness": v["witness"],
                                        "count": v["count"], "seed": self.seed, "tier": self.tier},
                                       indent=1, default=jdefault))
            lines.append(f"VIOLATION property={self.pid} replay={path}  # {v['key']} x{v['count']}")
            vio_out.append({"key": v["key"], "count": v["count"], "replay": str(path)})
        cov = {
            "states": self.states,
            "transitions": self.transitions,
            "traces_validated_against_impl": self.traces,
            "evaluations": self.evaluations,
            "distinct_nontrivial": len(self.distinct),
            "rule": rule,
            "samples": self.samples or ["(no sample recorded)"],
            "models": self.models,
            "canaries": self.canaries,
            "known_findings_seen": [{"what": self.findings[i]["what"], "match": self.findings[i]["match"], "count": n}
                                    for i, n in sorted(self.hit.items())],
            "violation_keys": vio_out[:50],
            **self.extra,
        }
        if explanation:
            cov["explanation"] = explanation
        if exhaustive is not None:
            cov["exhaustive"] = exhaustive
        ev = {"property_id": self.pid, "tier": self.tier, "seed": self.seed, "level": self.level, "coverage": cov,
              "assumptions": self.assumptions, "wall_s": round(wall, 2), "violations": len(self.violations)}
        if self.machinery:
            ev["machinery_failures"] = self.machinery
        (evid / f"{self.pid}.json").write_text(json.dumps(ev, indent=1, default=jdefault) + "\n")
        for ln in lines:
            print(ln)
        for m in self.machinery:
            print(f"MACHINERY-FAILURE property={self.pid} {m}", file=sys.stderr)
        if self.violations:
            print(f"check {self.pid}: {len(self.violations)} unlisted violation key(s) after {wall:.1f}s")
            return 1
        if self.machinery:
            print(f"check {self.pid}: machinery failure ({len(self.machinery)}) after {wall:.1f}s", file=sys.stderr)
            return 2
        print(f"check {self.pid}: OK tier={self.tier} seed={self.seed} states={self.states} traces={self.traces} "
              f"evaluations={self.evaluations} distinct={len(self.distinct)} known={sum(self.hit.values())} "
              f"wall={wall:.1f}s")
        return 0


def repo_digest() -> str:
    """sha256 of every .py file of the working tree's pyvolutionary package (cache key of the corpus)."""
    h = hashlib.sha256()
    for p in sorted((REPO / "pyvolutionary").rglob("*.py")):
        h.update(str(p.relative_to(REPO)).encode())
        h.update(p.read_bytes())
    return h.hexdigest()
