"""The run corpus: real runs of the 84 optimizers on generated tasks / configurations / seeds / modes, recorded,
projected by alpha and judged by TLC (TracePop.tla).  Shared by C01 C02 C03 C04 C05 C06 C09 C10 C15 C17.

Cache: /verif/.work/cache/<sha256(repo sources + harness sources + tier + seed)>/{records.ndjson, verdict.json}, built
under an fcntl lock so that property commands started in parallel wait for one builder.
"""
from __future__ import annotations

import concurrent.futures as cf
import contextlib
import fcntl
import hashlib
import io
import json
import math
import os
import random
import signal
import sys
import tempfile
import time
import traceback
import warnings
from pathlib import Path

import numpy as np

from . import gen
from .common import WORK, repo_digest
from .judge import judge

NANTOK = 99999
BADDEC = 88888


# ----------------------------------------------------------------------------- plan
def plan(tier: str, seed: int) -> list[dict]:
    """The list of runs.  Quick: 9 runs per optimizer; thorough: ~45."""
    rng = random.Random(seed * 7919 + (1 if tier == "thorough" else 0))
    runs = []

    def add(opt, desc, cfg, mode="serial", workers=None, tag=""):
        runs.append({"id": len(runs) + 1, "opt": opt, "desc": desc, "cfg": cfg, "mode": mode, "workers": workers, "tag": tag,
                     "debug": rng.random() < 0.12, "other": _other(rng, desc)})
        if rng.random() < 0.1:
            desc["scribble"] = True        # the objective overwrites its argument after reading it (the library must hand it a copy)

    reps = 24 if tier == "thorough" else 3
    for opt in gen.OPTIMIZERS:
        for rep in range(reps):
            # continuous, both directions, all stop criteria, documented scale and above
            add(opt, gen.task_desc(rng, "contmulti", minmax="min"), gen.config_dict(rng, opt, scale=1, stop="cycles", jit=rng.random() < 0.7), tag="cont")
            add(opt, gen.task_desc(rng, "contmulti", minmax="max"), gen.config_dict(rng, opt, scale=rng.choice([1, 1.5, 2]), stop="cycles", jit=True), tag="cont")
            add(opt, gen.task_desc(rng, "cont", regime=rng.choice(["zero_lb", "zero_ub", "mixed"])),
                gen.config_dict(rng, opt, scale=1, stop=rng.choice(["fe", "es", "both"]), jit=rng.random() < 0.7), tag="cont")
            add(opt, gen.task_desc(rng, "multiobj"), gen.config_dict(rng, opt, scale=rng.choice([1, 3]), max_cycles=rng.choice([1, 2, 4]), jit=rng.random() < 0.7), tag="cont")
            add(opt, gen.task_desc(rng, "contmulti", dim=rng.choice([1, 2, 6])), gen.config_dict(rng, opt, max_cycles=1, jit=rng.random() < 0.7), tag="cont")
            # population sizes above the documented scale that are odd / not multiples of a group size
            add(opt, gen.task_desc(rng, "contmulti"), gen.config_dict(rng, opt, scale=rng.choice([1, 1.5]), plus=rng.choice([1, 3, 5, 7]), max_cycles=rng.choice([2, 3]), jit=rng.random() < 0.5), tag="cont")
            # long runs at the documented scale: rare branches, late cycles, slow drifts (4 per repetition)
            for _ in range(4):
                d = gen.task_desc(rng, rng.choice(["contmulti", "cont"]), dim=rng.choice([2, 3, 4]))
                d["offset"] = rng.choice([0.0, 250.0, -1000.0, 1e6])
                d["scale"] = rng.choice([1.0, 1.0, 1e-20, 1e12]) if d["offset"] == 0.0 else 1.0
                add(opt, d, gen.config_dict(rng, opt, scale=1, max_cycles=40, stop="cycles", jit=rng.random() < 0.7), tag="long")
            # many continuous variables (vectorised paths), a coordinate on a zero bound
            add(opt, gen.task_desc(rng, rng.choice(["contmulti", "cont"]), dim=rng.choice([8, 10, 12]), regime=rng.choice(["zero_lb", "zero_ub", "mixed", "unit"])),
                gen.config_dict(rng, opt, max_cycles=rng.choice([2, 3]), jit=rng.random() < 0.7), tag="cont")
            # the documented cycle budget and beyond (defects that only show in later cycles)
            add(opt, gen.task_desc(rng, rng.choice(["contmulti", "cont"])), gen.config_dict(rng, opt, max_cycles=rng.choice([8, 10, 12, 20]), stop="cycles", jit=rng.random() < 0.7), tag="cont")
            if tier == "thorough" and rep < 3:
                # beyond the documented scale: many variables, large populations, long budgets (one of each per optimizer)
                add(opt, gen.task_desc(rng, rng.choice(["contmulti", "cont"]), dim=rng.choice([16, 24])),
                    gen.config_dict(rng, opt, max_cycles=rng.choice([3, 5]), jit=rng.random() < 0.5), tag="big")
                add(opt, gen.task_desc(rng, "contmulti", dim=3), gen.config_dict(rng, opt, scale=rng.choice([5, 6.4]), plus=1, max_cycles=3), tag="big")
                add(opt, gen.task_desc(rng, "contmulti", dim=2), gen.config_dict(rng, opt, max_cycles=rng.choice([100, 120]), stop="cycles"), tag="big")
            # solver modes
            add(opt, gen.task_desc(rng, "contmulti"), gen.config_dict(rng, opt, max_cycles=3, jit=rng.random() < 0.7), mode="thread", workers=rng.choice([1, 2, 3, 8]), tag="thread")
            if rep == 0:
                add(opt, gen.task_desc(rng, "contmulti", dim=2), gen.config_dict(rng, opt, max_cycles=2, jit=rng.random() < 0.7), mode="process", workers=rng.choice([2, 3]), tag="process")
            # integer-coded encodings (C06: per (optimizer, encoding) baseline)
            for enc in (["disc", "discmulti", "bin", "mixed", "perm"] if tier == "thorough" else [rng.choice(["disc", "discmulti", "bin"]), rng.choice(["mixed", "perm"])]):
                add(opt, gen.task_desc(rng, enc), gen.config_dict(rng, opt, max_cycles=rng.choice([2, 3]), jit=rng.random() < 0.7), tag="int")
    return runs


def _other(rng, desc):
    """the task a used instance sees between two runs of `desc`: another task of the same encoding, or - half of the time - a
    clone with the SAME variables and seed but another objective and direction (identical position streams: anything cached
    per position or per dimension is exposed)"""
    if rng.random() < 0.5:
        return gen.task_desc(rng, desc.get("encoding"))
    o = json.loads(json.dumps(desc))
    o["family"] = rng.choice([f for f in gen.FAMILIES if f != desc["family"]])
    o["minmax"] = "max" if desc.get("minmax") == "min" else "min"
    o["offset"] = 17.5
    o.pop("scribble", None)
    return o


# ----------------------------------------------------------------------------- one run (worker process)
class _Timeout(Exception):
    pass


def _alarm(signum, frame):
    raise _Timeout()


def _dump_model(m) -> str:
    d = m.model_dump()
    if hasattr(m, "get_bounds") and hasattr(m, "variables"):
        # a task's search-space description as the caller observes it (C09 lists the bounds explicitly)
        try:
            lb, ub = m.get_bounds()
            d["bounds"] = [repr(np.asarray(lb).tolist()), repr(np.asarray(ub).tolist())]
        except Exception as ex:
            d["bounds"] = f"raises {type(ex).__name__}"
    return json.dumps(d, sort_keys=True, default=repr)


def _field_diff(a: str, b: str) -> list[str]:
    da, db = json.loads(a), json.loads(b)
    return sorted(k for k in set(da) | set(db) if da.get(k) != db.get(k))


def crash_site(tb) -> str:
    """innermost frame inside the pyvolutionary package: module.function"""
    site = "?"
    for fs in traceback.extract_tb(tb):
        if "/pyvolutionary/" in fs.filename:
            tail = fs.filename.split("/pyvolutionary/", 1)[1]
            site = f"{tail[:-3].replace('/', '.')}.{fs.name}"
    return site


def run_one(spec: dict, timeout: int = 120) -> dict:
    from . import tasks, traced
    import pyvolutionary
    opt = spec["opt"]
    desc = spec["desc"]
    out = {"id": spec["id"], "opt": opt, "mode": spec["mode"], "tag": spec.get("tag", ""), "encoding": desc.get("encoding", "?"),
           "spec": spec}
    cfgcls = getattr(pyvolutionary, gen.FIX[opt]["config_class"])
    try:
        cfg = cfgcls(**spec["cfg"])
    except Exception as ex:
        out["skipped"] = f"configuration rejected by {cfgcls.__name__}: {type(ex).__name__}"
        return out
    why = gen.precondition(opt, spec["cfg"], desc)
    if why:
        out["skipped"] = why
        return out
    task = tasks.build_task(desc)
    logpath = None
    if spec["mode"] == "process":
        fd, logpath = tempfile.mkstemp(prefix="calls-", suffix=".ndjson", dir=str(WORK / "tmp"))
        os.close(fd)
    tasks.REC.reset(logpath)
    cfg0, task0 = _dump_model(cfg), _dump_model(task)
    o = traced.TRACED[opt](cfg, debug=bool(spec.get("debug")))
    res, crash, crash_msg = None, "", ""
    signal.signal(signal.SIGALRM, _alarm)
    signal.alarm(timeout)
    t0 = time.time()
    try:
        with contextlib.redirect_stdout(io.StringIO()), np.errstate(all="ignore"):
            import warnings
            with warnings.catch_warnings():
                warnings.simplefilter("ignore")
                kw = {}
                if spec["mode"] != "serial":
                    kw = {"mode": spec["mode"], "workers": spec["workers"]}
                res = o.optimize(task, **kw)
    except _Timeout:
        crash, crash_msg = "Timeout@?", f"no result after {timeout}s"
    except BaseException as ex:  # noqa
        et, ev, tb = sys.exc_info()
        crash = f"{type(ex).__name__}@{crash_site(tb)}"
        crash_msg = str(ex)[:300]
    finally:
        signal.alarm(0)
    out["wall"] = round(time.time() - t0, 3)
    # C07 / C08 on every serial run of the corpus: the same key again on a fresh instance (must be identical), and once
    # more on that now-used instance (must be identical again)
    out["repro"], out["reuse"] = 1, 1            # 1 = equal / not applicable, 0 = differs
    if res is not None and spec["mode"] == "serial" and not spec.get("no_rerun"):
        from .instance import digest
        import pyvolutionary as _pv
        d0 = digest(res)
        signal.alarm(2 * timeout)
        try:
            with contextlib.redirect_stdout(io.StringIO()), np.errstate(all="ignore"), warnings.catch_warnings():
                warnings.simplefilter("ignore")
                tasks.REC.reset()
                o2 = getattr(_pv, opt)(cfgcls(**spec["cfg"]))
                r2 = o2.optimize(tasks.build_task(desc))
                out["repro"] = 1 if digest(r2) == d0 else 0
                # ... then a run on ANOTHER task of the same encoding (other bounds / dimension / direction / weights), and
                # the original task again: must still equal the fresh-instance result
                tasks.REC.reset()
                other = spec.get("other")
                if other and gen.precondition(opt, spec["cfg"], other) is None:
                    try:
                        o2.optimize(tasks.build_task(other))
                    except Exception:
                        pass          # a crash on the other task is C06's business; the instance is "used" either way
                tasks.REC.reset()
                r3 = o2.optimize(tasks.build_task(desc))
                out["reuse"] = 1 if digest(r3) == d0 else 0
                out["reuse_immutable"] = 1 if digest(r2) == d0 or out["repro"] == 0 else 0
        except _Timeout:
            pass
        except Exception as ex:
            out["rerun_exception"] = type(ex).__name__
            out["reuse"] = 0
        finally:
            signal.alarm(0)
    cfg1, task1 = _dump_model(cfg), _dump_model(task)
    calls = tasks.REC.load()
    if logpath:
        with contextlib.suppress(OSError):
            os.unlink(logpath)
    out.update(project(spec, desc, cfg, o, res, calls, crash))
    out["crash_msg"] = crash_msg
    out["cfg_same"], out["task_same"] = cfg0 == cfg1, task0 == task1
    out["cfg_diff"] = _field_diff(cfg0, cfg1) if cfg0 != cfg1 else []
    out["task_diff"] = _field_diff(task0, task1) if task0 != task1 else []
    return out


# ----------------------------------------------------------------------------- alpha
def _key(pos) -> str:
    from .tasks import _plain
    try:
        return json.dumps(_plain(pos))
    except Exception:
        return repr(pos)


class Ranker:
    """signed dense ranks: order-, equality- and negation-preserving map of floats into small integers"""

    def __init__(self):
        self.mags = set()

    def add(self, v):
        try:
            f = float(v)
        except Exception:
            return
        if math.isnan(f) or math.isinf(f) or f == 0:
            return
        self.mags.add(abs(f))

    def freeze(self):
        self.order = {m: k + 1 for k, m in enumerate(sorted(self.mags))}
        self.top = len(self.order) + 1

    def rk(self, v) -> int:
        try:
            f = float(v)
        except Exception:
            return NANTOK
        if math.isnan(f):
            return NANTOK
        if f == 0:
            return 0
        if math.isinf(f):
            return self.top if f > 0 else -self.top
        return self.order[abs(f)] if f > 0 else -self.order[abs(f)]


def phi(u: float) -> float:
    return 1 / (u + 1) if u >= 0 else 1 + abs(u)


def close(a: float, b: float, rel: float = 4e-16) -> bool:
    if a == b:
        return True
    if math.isnan(a) or math.isnan(b):
        return False
    return abs(a - b) <= rel * max(abs(a), abs(b))


def undecode(desc, tr: dict):
    """decoded solution (dict by variable name) -> index-space position the harness objective understands"""
    x = []
    for k, d in enumerate(desc["vars"]):
        v = tr[f"v{k}"]
        t = d["t"]
        if t == "cont":
            x.append(v)
        elif t in ("contmulti", "multiobj"):
            x.extend(v)
        elif t == "disc":
            x.append(v // 10)
        elif t == "discmulti":
            x.extend(q // 10 for q in v)
        elif t == "bin":
            x.extend(v)
        elif t == "perm":
            x.append([int(q[4:]) for q in v])
    return x


def project(spec, desc, cfg, o, res, calls, crash) -> dict:
    from . import tasks
    kinds = tasks.coord_kinds(desc)
    D = len(kinds)
    sign = 1 if desc.get("minmax", "min") == "min" else -1
    w = desc.get("weights")
    ptab, pids, ppos = [], {}, []

    def pid(pos):
        k = _key(pos)
        if k not in pids:
            pids[k] = len(ptab) + 1
            ptab.append(tasks.classes_of(kinds, pos))
            ppos.append(pos)
        return pids[k]

    snaps_raw = getattr(o, "_vsnaps", [])
    rk = Ranker()
    # objective oracle per position (user's sign)
    fval = {}

    def oracle(pos, reported=None):
        p = pid(pos)
        if p in fval:
            return fval[p]
        try:
            v = tasks.objective(desc, pos)
            if w is not None:
                exact = float(np.dot(v, w))
                # the weighted sum may legitimately be accumulated in another order: accept the reported value within
                # the forward error bound of any summation order
                bound = 4 * np.finfo(float).eps * sum(abs(a * b) for a, b in zip(v, w)) * len(w)
                v = reported if (reported is not None and abs(reported - exact) <= bound) else exact
            fval[p] = float(v)
        except Exception:
            fval[p] = math.nan
        return fval[p]

    snaps = []
    for s in snaps_raw:
        gl = []
        for (pos, c, fit) in s:
            p = pid(pos)
            oracle(pos, sign * c)
            rk.add(c)
            gl.append((p, c))
        snaps.append(gl)
    evo, best = [], None
    dval = {}
    task_for_decode = None
    if res is not None:
        task_for_decode = tasks.build_task(desc)
        for g in res.evolution:
            gl = []
            for a in g.agents:
                p = pid(a.position)
                oracle(a.position, a.cost)
                rk.add(a.cost)
                gl.append((p, a.cost, 1 if close(a.fitness, phi(a.cost)) else 0))
            evo.append(gl)
        b = res.best_solution
        best = (pid(b.position), b.cost, 1 if close(b.fitness, phi(b.cost)) else 0)
        oracle(b.position, b.cost)
        rk.add(b.cost)
        for p0 in {a[0] for gl in evo for a in gl} | {best[0]}:
            try:
                tr = task_for_decode.transform_solution(ppos[p0 - 1])
                v = tasks.objective(desc, undecode(desc, tr))
                if w is not None:
                    exact = float(np.dot(v, w))
                    v = fval[p0] if close(exact, fval[p0], 1e-12) else exact
                dval[p0] = float(v)
            except Exception:
                dval[p0] = None
    # trend utilities (C15): what utils.py returns for every rank idx and every generation
    trend_raw, tpos_raw, sub_raw = [], [], None
    if res is not None:
        import pyvolutionary.utils as U
        nmin = min(len(g.agents) for g in res.evolution)
        try:
            for idx in range(nmin):
                trend_raw.append(list(U.agent_trend(res, idx)))
                tpos_raw.append([pid(x) for x in U.agent_position(res, idx)])
            its = sorted(set(range(0, len(res.evolution), 2)))
            sub_raw = {"iters": [k + 1 for k in its], "trend": list(U.best_agent_trend(res, its)), "pos": [pid(x) for x in U.best_agent_position(res, its)],
                       "full": list(U.best_agent_trend(res)), "fullpos": [pid(x) for x in U.best_agent_position(res)]}
            for row in trend_raw:
                for v in row:
                    rk.add(v)
            # the utilities only READ the history: every generation must still be what was captured before they ran
            after = [[(pid(a.position), a.cost) for a in g.agents] for g in res.evolution]
            if after != [[(p, u) for (p, u, _f) in gl] for gl in evo]:
                trend_raw, tpos_raw, sub_raw = None, None, None
        except Exception as ex:
            trend_raw, tpos_raw, sub_raw = None, None, None
    # extensions (spec/AlgoRel.tla): loop bookkeeping and algorithm-private observables
    lead_raw = [(pid(x[0]), x[1]) if x is not None else None for x in getattr(o, "_vlead", [])]
    aux_raw = []
    for a in getattr(o, "_vaux", []):
        if not a or "aux_error" in a:
            aux_raw.append(("none", [], [], 0))
        elif "leaders" in a:
            aux_raw.append(("greywolf", [(pid(p), c) for p, c in a["leaders"]], [], 0))
        elif "pbest" in a:
            aux_raw.append(("pso", [(pid(p), c) for p, c in a["pbest"]], [], 0))
        elif "trials" in a:
            aux_raw.append(("bee", [], a["trials"], a["limit"]))
        else:
            aux_raw.append(("none", [], [], 0))
    for x in lead_raw:
        if x is not None:
            rk.add(x[1])
    for _, a, _, _ in aux_raw:
        for _, c in a:
            rk.add(c)
    # calls: argument positions interned in the same table
    nph = max([c[0] for c in calls], default=-1) + 1
    callp = [[] for _ in range(max(nph, len(snaps)))]
    csite = {}
    seen = set()
    for (ph, x, val, site) in calls:
        p = pid(x)
        seen.add(p)
        if p not in callp[ph]:
            callp[ph].append(p)
        csite.setdefault(p, set()).add(site)
    for v in fval.values():
        rk.add(v)
    for v in dval.values():
        if v is not None:
            rk.add(v)
    rk.freeze()
    n = len(ptab)
    ftab = [rk.rk(fval[p]) if p in fval else NANTOK for p in range(1, n + 1)]
    dtab = [(BADDEC if dval.get(p, 0) is None else rk.rk(dval[p])) if p in dval else ftab[p - 1] for p in range(1, n + 1)]
    stab = [1 if p in seen else 0 for p in range(1, n + 1)]
    rates = list(res.rates) if res is not None else []
    fe, es = cfg.fitness_error, cfg.early_stopping
    # optional early-stopping fields: None means the documented default (patience 1, min_delta 1e-4)
    es_md = (es.min_delta if es.min_delta is not None else 1e-4) if es is not None else None
    es_pat = (es.patience if es.patience is not None else 1) if es is not None else 1
    lefe = [fe is not None and r <= fe for r in rates]
    dec = [False] + [es is not None and (rates[j] - rates[j - 1] < 0 and abs(rates[j] - rates[j - 1]) < es_md)
                     for j in range(1, len(rates))]
    rate_ok = True
    if res is not None:
        for j, r in enumerate(rates):
            if j + 1 < len(res.evolution):
                fits = [a.fitness for a in res.evolution[j + 1].agents]
                want = abs(1 - math.fsum(fits) / len(fits)) if fits else math.nan
                rate_ok = rate_ok and (abs(want - r) <= 1e-12 * max(1.0, abs(want)))
    opt = spec["opt"]
    rec = {
        "N": int(spec["cfg"]["population_size"]), "dir": desc.get("minmax", "min"), "D": D,
        "sizecls": "variable" if opt in gen.VARIABLE_SIZE else "exact",
        "elitist": gen.elitist(opt, spec["cfg"]),
        "kindp": [1 if k["k"] == "perm" else 0 for k in kinds],
        "mc": int(cfg.max_cycles), "hasFe": fe is not None, "hasEs": es is not None, "pat": int(es_pat),
        "lefe": lefe, "dec": dec, "nrates": len(rates), "rate_ok": bool(rate_ok),
        "steps": int(getattr(o, "_vsteps", 0)), "gens": len(evo),
        "ptab": ptab, "ftab": ftab, "dtab": dtab, "stab": stab,
        "snaps": [[[p, rk.rk(c)] for (p, c) in gl] for gl in snaps],
        "evo": [[[p, rk.rk(u), f] for (p, u, f) in gl] for gl in evo],
        "best": [best[0], rk.rk(best[1]), best[2]] if best else [1, 0, 1],
        "calls": callp, "crash": crash, "completed": res is not None,
        "cyc": [int(c) for c in getattr(o, "_vcyc", [])],
        "nerr": [[int(a), int(b)] for a, b in getattr(o, "_vnerr", [])],
        "lead": [[x[0], rk.rk(x[1])] if x is not None else [0, 0] for x in lead_raw],
        "aux": [{"kind": k, "a": [[p, rk.rk(c)] for p, c in a], "t": [int(v) for v in t], "limit": int(lim)} for k, a, t, lim in aux_raw],
        "slotwise": opt in gen.GREEDY_EACH or os.environ.get("VERIF_SLOTWISE_ALL") == "1",
        "trend_ok": trend_raw is not None,
        "trend": [[rk.rk(v) for v in row] for row in (trend_raw or [])], "tpos": tpos_raw or [],
        "sub": ({"iters": sub_raw["iters"], "trend": [rk.rk(v) for v in sub_raw["trend"]], "pos": sub_raw["pos"],
                 "full": [rk.rk(v) for v in sub_raw["full"]], "fullpos": sub_raw["fullpos"]} if sub_raw else
                {"iters": [], "trend": [], "pos": [], "full": [], "fullpos": []}),
        # harness-side detail for keying violations (not read by TLC)
        "x_sites": {str(p): sorted(s) for p, s in csite.items() if not _member(kinds, ptab[p - 1])},
        "x_ncalls": len(calls),
    }
    if not ptab:
        rec["ptab"], rec["ftab"], rec["dtab"], rec["stab"] = [[0] * D], [0], [0], [1]
    return rec


def _member(kinds, cls) -> bool:
    return len(cls) == len(kinds) and all((c == 10) if k["k"] == "perm" else (c in (0, 1, 2)) for k, c in zip(kinds, cls))


# ----------------------------------------------------------------------------- corpus with cache
def harness_digest() -> str:
    h = hashlib.sha256()
    here = Path(__file__).parent
    for p in sorted(here.glob("*.py")) + sorted(here.glob("*.json")) + sorted((here.parent / "spec").glob("TracePop.tla")) \
            + sorted((here.parent / "spec").glob("PopRel.tla")) + sorted((here.parent / "spec").glob("StopRel.tla")):
        h.update(p.name.encode())
        h.update(p.read_bytes())
    return h.hexdigest()


def run_all(specs: list[dict], jobs: int = 14, timeout: int = 120) -> list[dict]:
    (WORK / "tmp").mkdir(parents=True, exist_ok=True)
    out = []
    with cf.ProcessPoolExecutor(jobs) as ex:      # non-daemonic workers: the library may start its own pools
        futs = {ex.submit(run_one, s, timeout): s for s in specs}
        for f in cf.as_completed(futs):
            s = futs[f]
            try:
                out.append(f.result())
            except Exception as e:  # a worker died: machinery problem, keep it visible
                out.append({"id": s["id"], "opt": s["opt"], "harness_error": f"{type(e).__name__}: {e}", "spec": s})
    # a run that hit the per-run alarm is repeated alone with a generous budget before it is called a hang: on an
    # overloaded machine a long run can simply be slow, and a slow run is not a violation
    slow = [k for k, r in enumerate(out) if str(r.get("crash", "")).startswith("Timeout@")]
    if slow:
        with cf.ProcessPoolExecutor(2) as ex:
            futs = {k: ex.submit(run_one, out[k]["spec"], 15 * timeout) for k in slow}
            for k, f in futs.items():
                try:
                    out[k] = f.result()
                except Exception:
                    pass
    out.sort(key=lambda r: r["id"])
    return out


HEAVY = ["ptab", "ftab", "dtab", "stab", "snaps", "evo", "calls", "trend", "tpos", "sub", "aux", "lead", "cyc", "nerr", "lefe", "dec", "x_sites"]
TLC_FIELDS = ["id", "N", "dir", "D", "sizecls", "elitist", "kindp", "mc", "hasFe", "hasEs", "pat", "lefe", "dec", "nrates",
              "rate_ok", "steps", "gens", "ptab", "ftab", "dtab", "stab", "snaps", "evo", "best", "calls", "crash",
              "completed", "cfg_same", "task_same", "trend_ok", "trend", "tpos", "sub", "repro", "reuse", "cyc", "nerr", "lead", "aux", "slotwise"]


def judge_runs(records: list[dict], tag: str):
    slim = [{k: r[k] for k in TLC_FIELDS} for r in records]
    return judge("TracePop.tla", "TracePop.cfg", slim, tag, jobs=12, per_batch=60)


def corpus(tier: str, seed: int) -> dict:
    """returns {"records": [...], "bad": [(id, clause)], "states": n, "skipped": [...], "errors": [...]} (cached)"""
    key = hashlib.sha256((repo_digest() + harness_digest() + tier + str(seed)).encode()).hexdigest()[:24]
    cdir = WORK / "cache" / key
    cdir.parent.mkdir(parents=True, exist_ok=True)
    lock = open(WORK / "cache" / f"{key}.lock", "w")
    fcntl.flock(lock, fcntl.LOCK_EX)
    try:
        done = cdir / "verdict.json"
        if done.exists():
            v = json.loads(done.read_text())
            v["records"] = [json.loads(ln) for ln in open(cdir / "records.ndjson")]
            v["bad"] = [tuple(b) for b in v["bad"]]
            v["cached"] = True
            return v
        t0 = time.time()
        specs = plan(tier, seed)
        # chunked: run -> judge -> keep full records only where they are needed (flagged runs + a pool of clean ones for
        # samples and canaries); everything else is reduced to the fields the checks aggregate over (bounded memory)
        records, skipped, errors, bad = [], [], [], []
        states = consumed = 0
        full_kept = 0
        judge_wall = 0.0
        for c0 in range(0, len(specs), 3000):
            raw = run_all(specs[c0:c0 + 3000])
            chunk = [r for r in raw if "skipped" not in r and "harness_error" not in r]
            skipped += [{"id": r["id"], "opt": r["opt"], "why": r["skipped"]} for r in raw if "skipped" in r]
            errors += [{"id": r["id"], "opt": r["opt"], "why": r["harness_error"]} for r in raw if "harness_error" in r]
            tj = time.time()
            b, st, cons = judge_runs(chunk, f"pop-{tier}")
            judge_wall += time.time() - tj
            bad += b
            states += st
            consumed += cons
            flagged = {i for i, _ in b}
            for r in chunk:
                r["n_agents"] = sum(len(g) for g in r["evo"])
                r["n_snaps"] = len(r["snaps"])
                keep = r["id"] in flagged or (full_kept < 120 and r["completed"] and r["gens"] >= 3 and r["N"] >= 3)
                if keep and r["id"] not in flagged:
                    full_kept += 1
                if not keep:
                    for k in HEAVY:
                        r.pop(k, None)
                    r["slim"] = True
                records.append(r)
        t1 = time.time() - judge_wall
        cdir.mkdir(parents=True, exist_ok=True)
        with open(cdir / "records.ndjson", "w") as f:
            for r in records:
                f.write(json.dumps(r) + "\n")
        v = {"bad": [list(b) for b in bad], "states": states, "consumed": consumed, "skipped": skipped, "errors": errors,
             "run_wall": round(t1 - t0, 1), "judge_wall": round(judge_wall, 1), "planned": len(specs)}
        done.write_text(json.dumps(v))
        # keep only the three most recent cache entries
        ents = sorted([p for p in (WORK / "cache").iterdir() if p.is_dir()], key=lambda p: p.stat().st_mtime)
        import shutil
        for p in ents[:-3]:
            shutil.rmtree(p, ignore_errors=True)
        v["records"] = records
        v["bad"] = bad
        v["cached"] = False
        return v
    finally:
        fcntl.flock(lock, fcntl.LOCK_UN)
        lock.close()
