"""Generic 'TLC judges a list of records' helper: split in batches, one single-worker JVM per batch,
verdict file per batch (consumed count + set of <<record id, failed clause>>)."""
from __future__ import annotations

import concurrent.futures as cf
import json
import shutil

from . import tlc


def judge(spec: str, cfg: str, records: list[dict], tag: str, jobs: int = 8, per_batch: int = 4000,
          env: dict | None = None, timeout: int = 2400) -> tuple[list[tuple], int, int]:
    """Returns (bad = [(id, clause)], states explored, records consumed).  Raises MachineryError when any
    batch is not consumed completely."""
    if not records:
        return [], 0, 0
    d = tlc.workdir(tag)
    nb = max(1, min(jobs, len(records) // per_batch + 1))
    batches = [records[k::nb] for k in range(nb)]

    def one(k):
        tf, vf = d / f"trace{k}.ndjson", d / f"verdict{k}.json"
        tlc.write_ndjson(tf, batches[k])
        e = {"TRACE_FILE": str(tf), "VERDICT_FILE": str(vf)}
        e.update(env or {})
        res = tlc.run(spec, cfg, env=e, workers=1, tag=f"{tag}-b{k}", timeout=timeout, heap="2g")
        if not res.ok or not vf.exists():
            raise tlc.MachineryError(f"trace judge {spec} failed: {res.violated}\n" + "\n".join(res.out.splitlines()[-30:]))
        v = json.loads(vf.read_text())
        if v["consumed"] != len(batches[k]):
            raise tlc.MachineryError(f"judge {spec} consumed {v['consumed']} of {len(batches[k])} records")
        return v["bad"], res.states, v["consumed"]

    try:
        with cf.ThreadPoolExecutor(nb) as ex:
            outs = list(ex.map(one, range(nb)))
    finally:
        shutil.rmtree(d, ignore_errors=True)
    bad = [tuple(b) for o in outs for b in o[0]]
    return bad, sum(o[1] for o in outs), sum(o[2] for o in outs)
