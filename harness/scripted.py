"""A scripted optimizer/task pair: the real optimize() loop runs, but every generation's costs are dictated
by a script, so the convergence rate of cycle j is exactly script[j] (dyadic values are bit-exact:
cost -L/8 < 0 => fitness 1 + L/8 => mean 1 + L/8 => rate L/8; L = 0 => cost 0 => fitness 1 => rate 0)."""
from __future__ import annotations

import contextlib
import io
import sys
import os

sys.path.insert(0, os.environ.get("VERIF_REPO", "/repo"))
from pyvolutionary.abstract import OptimizationAbstract            # noqa: E402
from pyvolutionary.models import BaseOptimizationConfig, ContinuousVariable, EarlyStopping, Task  # noqa: E402


class ScriptTask(Task):
    """objective = -rate of the cycle being built (data['cursor'] is advanced by the optimizer)."""

    def objective_function(self, x):
        d = self.data
        sc = d["script"]
        return -float(sc[min(d["cursor"], len(sc) - 1)])


class ScriptedOptimization(OptimizationAbstract):
    def __init__(self, config=None, debug=False):
        super().__init__(config, debug)
        self.steps = 0

    def set_config_parameters(self, parameters):
        self._config = BaseOptimizationConfig(**parameters)

    def before_initialization(self):
        self.steps = 0
        self._task.data["cursor"] = 0

    def optimization_step(self):
        self.steps += 1
        self._task.data["cursor"] = self.steps          # script[j] is the rate of cycle j (script[0]: initial)
        self._population = [self._init_agent() for _ in range(self._config.population_size)]


def run_script(mc: int, fe, es, rates: list[float], pop: int = 2):
    """rates[j-1] = rate of cycle j.  Returns (steps, gens, observed rates, per-generation fitness lists)."""
    cfg = BaseOptimizationConfig(population_size=pop, max_cycles=mc, fitness_error=fe,
                                 early_stopping=None if es is None else EarlyStopping(patience=es[0], min_delta=es[1]))
    task = ScriptTask(variables=[ContinuousVariable(name="x", lower_bound=0.0, upper_bound=1.0)],
                      data={"script": [rates[0]] + list(rates), "cursor": 0})
    o = ScriptedOptimization(cfg)
    with contextlib.redirect_stdout(io.StringIO()):
        res = o.optimize(task)
    fits = [[a.fitness for a in g.agents] for g in res.evolution]
    return o.steps, len(res.evolution), list(res.rates), fits
