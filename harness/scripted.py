"""A scripted optimizer/task pair: the real optimize() loop runs, but every generation's costs are dictated
by a script, so the convergence rate of cycle j is exactly script[j] (dyadic values are bit-exact:
cost -L/8 < 0 => fitness 1 + L/8 => mean 1 + L/8 => rate L/8; L = 0 => cost 0 => fitness 1 => rate 0)."""
from __future__ import annotations

import contextlib
import io
import sys
import os

sys.path.insert(0, os.environ.get("VERIF_REPO", "/repo"))
from pyvolutionary.abstract import OptimizationAbstract            # noqa: E402
from pyvolutionary.models import BaseOptimizationConfig, ContinuousVariable, EarlyStopping, Task  # noqa: E402


class ScriptTask(Task):
    """objective = -rate of the cycle being built (data['cursor'] is advanced by the optimizer)."""

    def objective_function(self, x):
        d = self.data
        sc = d["script"]
        return -float(sc[min(d["cursor"], len(sc) - 1)])


class ScriptedOptimization(OptimizationAbstract):
    def __init__(self, config=None, debug=False):
        super().__init__(config, debug)
        self.steps = 0

    def set_config_parameters(self, parameters):
        self._config = BaseOptimizationConfig(**parameters)

    def before_initialization(self):
        self.steps = 0
        self._task.data["cursor"] = 0

    def optimization_step(self):
        self.steps += 1
        self._task.data["cursor"] = self.steps          # script[j] is the rate of cycle j (script[0]: initial)
        self._population = [self._init_agent() for _ in range(self._config.population_size)]


def run_script(mc: int, fe, es, rates: list[float], pop: int = 2):
    """rates[j-1] = rate of cycle j.  Returns (steps, gens, observed rates, per-generation fitness lists)."""
    cfg = BaseOptimizationConfig(population_size=pop, max_cycles=mc, fitness_error=fe,
                                 early_stopping=None if es is None else EarlyStopping(patience=es[0], min_delta=es[1]))
    task = ScriptTask(variables=[ContinuousVariable(name="x", lower_bound=0.0, upper_bound=1.0)],
                      data={"script": [rates[0]] + list(rates), "cursor": 0})
    o = ScriptedOptimization(cfg)
    with contextlib.redirect_stdout(io.StringIO()):
        res = o.optimize(task)
    fits = [[a.fitness for a in g.agents] for g in res.evolution]
    return o.steps, len(res.evolution), list(res.rates), fits


# ----------------------------------------------------------------------------- scripted optimizer for the two drivers
import json as _json  # noqa: E402
import os as _os  # noqa: E402


class DriverCfg(BaseOptimizationConfig):
    population_size: int = 2
    max_cycles: int = 1
    fitness_error: float | None = None
    ka: int = 0
    Kb: int = 0
    kc: int = 0


def point_key(params: dict) -> str:
    return _json.dumps({k: int(v) for k, v in sorted(params.items())}, sort_keys=True)


class DriverTask(Task):
    """objective = the score the scripted optimizer was told to produce for this run"""

    def objective_function(self, x):
        return float(self.data.get("score", 0.0))


class DriverTaskB(DriverTask):
    pass


class DriverTaskC(DriverTask):
    pass


class DriverOpt(OptimizationAbstract):
    """Every optimize() call claims the next trial slot of its parameter point (O_EXCL file, works across the
    processes of the drivers' pools), logs what it saw (parameters, mode, workers, task class) and produces the
    scripted best cost table[key][slot]."""

    def set_config_parameters(self, parameters):
        self._config = DriverCfg(**parameters)

    def _params(self):
        return {k: getattr(self._config, k) for k in ("ka", "Kb", "kc") if k in self._config.model_fields_set}

    def before_initialization(self):
        d = self._task.data
        key = point_key(self._params())
        tag = f"{type(self).__name__}|{type(self._task).__name__}|{key}"
        h = __import__("hashlib").sha1(tag.encode()).hexdigest()[:16]
        slot = 0
        while True:
            try:
                fd = _os.open(_os.path.join(d["dir"], f"slot-{h}-{slot}"), _os.O_CREAT | _os.O_EXCL | _os.O_WRONLY, 0o600)
                _os.close(fd)
                break
            except FileExistsError:
                slot += 1
        table = d.get("table", {})
        row = table.get(key, [0])
        self._task.data["score"] = row[slot] if slot < len(row) else row[-1]
        line = _json.dumps({"opt": type(self).__name__, "task": type(self._task).__name__, "key": key, "slot": slot,
                            "mode": str(self._mode), "workers": self._workers, "pid": _os.getpid()}) + "\n"
        fd = _os.open(_os.path.join(d["dir"], "calls.ndjson"), _os.O_WRONLY | _os.O_APPEND | _os.O_CREAT, 0o600)
        try:
            _os.write(fd, line.encode())
        finally:
            _os.close(fd)

    def optimization_step(self):
        self._population = [self._init_agent() for _ in range(self._config.population_size)]


class DriverOptB(DriverOpt):
    pass


class DriverOptC(DriverOpt):
    pass
