"""Checks decided on the run machine: C01 C02 C03 C05 C06 C09 C10 C15 C17 (and the corpus part of C04).

(M) PopMachine.tla exhaustive (+ the deviation configuration(s) relevant to the property, which must fail);
(V) the run corpus (harness/corpus.py) judged by TLC with TracePop.tla; each (run, clause) verdict is turned into
    violation keys that say WHAT fails (optimizer, clause, call site / class / exception), never which input.
"""
from __future__ import annotations

import collections
import json
import random

from . import tlc, corpus, gen
from .common import Check

CLS_NAMES = ["in", "lb", "ub", "lt", "gt", "nan", "ninf", "pinf", "nonint", "badtype", "perm_ok", "perm_bad"]

MODELS = ["PopMachine_mc_min.cfg", "PopMachine_mc_max.cfg", "PopMachine_mc_all.cfg"]
MODELS_THOROUGH = ["PopMachine_mc_n3.cfg"]
DEVS = {
    "C01": [("PopMachine_nanpass.cfg", "Feasible"), ("PopMachine_bypass.cfg", "Feasible")],
    "C02": [("PopMachine_stale.cfg", "CostTruth"), ("PopMachine_signslip.cfg", "CostTruth")],
    "C03": [("PopMachine_wrongbest.cfg", "BestOK")],
    "C05": [("PopMachine_nanpass_args.cfg", "ArgsOK")],
    "C06": [],
    "C09": [],
    "C10": [("PopMachine_dropagent.cfg", "SizeInv")],
    "C15": [("PopMachine_mutate.cfg", "HistoryAppendOnly")],
    "C17": [("PopMachine_inverted.cfg", "ElitistMonotone")],
    "C04": [],
}
CONT_ENC = {"cont", "contmulti", "multiobj"}


def _nonmember_classes(rec, pids):
    out = set()
    kp = rec["kindp"]
    for p in pids:
        cls = rec["ptab"][p - 1]
        if len(cls) != rec["D"]:
            out.add("wrong_length")
            continue
        for k, c in enumerate(cls):
            if (kp[k] == 1 and c != 10) or (kp[k] == 0 and c not in (0, 1, 2)):
                out.add(CLS_NAMES[c] if c < len(CLS_NAMES) else str(c))
    return out


def explain(rec: dict, clause: str) -> list[dict]:
    """violation keys for a (run, clause) verdict of TLC"""
    opt = rec["opt"]
    base = {"optimizer": opt}
    if clause in ("C01.gen", "C01.best", "C01.snap"):
        if clause == "C01.gen":
            pids = {a[0] for g in rec["evo"] for a in g}
        elif clause == "C01.best":
            pids = {rec["best"][0]}
        else:
            pids = {a[0] for g in rec["snaps"] for a in g}
        return [{**base, "class": c} for c in sorted(_nonmember_classes(rec, pids))] or [base]
    if clause == "C05.arg":
        keys = []
        for p, sites in rec.get("x_sites", {}).items():
            for c in sorted(_nonmember_classes(rec, [int(p)])):
                for s in sites:
                    keys.append({**base, "site": s, "class": c})
        return keys or [base]
    if clause == "C06.crash":
        exc, _, fn = rec["crash"].partition("@")
        if rec["encoding"] in CONT_ENC:
            return [{**base, "exception": exc, "function": fn, "space": "continuous"}]
        return [{**base, "exception": exc, "function": fn, "space": rec["encoding"]}]
    if clause == "C09.cfg":
        return [{**base, "field": f} for f in rec.get("cfg_diff", [])] or [base]
    if clause == "C09.task":
        return [{**base, "field": f} for f in rec.get("task_diff", [])] or [base]
    if clause == "C15.trend":
        return [{"utility": "utils.agent_trend/agent_position/best_*", "dir": rec["dir"]}]
    if clause == "C02.decode":
        return [{**base, "encoding": "perm" if rec["encoding"] == "perm" else "any"}]
    return [base]


def int_pairs(records):
    """(optimizer, encoding) -> (runs, crashes) on integer-coded tasks"""
    t = collections.defaultdict(lambda: [0, 0, collections.Counter()])
    for r in records:
        if r["encoding"] not in CONT_ENC:
            e = t[(r["opt"], r["encoding"])]
            e[0] += 1
            if r["crash"]:
                e[1] += 1
                e[2][r["crash"]] += 1
    return t


def run_models(chk: Check, pid: str):
    thorough = chk.tier == "thorough"
    for cfg in MODELS + (MODELS_THOROUGH if thorough else []):
        chk.model(cfg, tlc.run("PopMachine.tla", cfg, workers=8, timeout=1800),
                  note="Feasible, ArgsOK, CostTruth, BestOK, SizeInv, HistoryOK, EvoLen, BestEver, HistoryAppendOnly, "
                       "ElitistMonotone, StepRefinesFrame, Terminates")
    for cfg, law in DEVS.get(pid, []):
        chk.model(cfg, tlc.run("PopMachine.tla", cfg, workers=4, timeout=600), expect=law, note="named deviation")
    if pid == "C09":
        chk.model("Instance_mc.cfg", tlc.run("Instance.tla", "Instance_mc.cfg", workers=8, timeout=900),
                  note="CallerUntouched (action property) over all call histories, also on the refusing path")
        chk.model("Instance_writescfg.cfg", tlc.run("Instance.tla", "Instance_writescfg.cfg", workers=4, timeout=600),
                  expect="CallerUntouched", note="named deviation: optimize() rewrites the configuration")
    if pid == "C06":
        chk.model("StopRule_mc.cfg", tlc.run("StopRule.tla", "StopRule_mc.cfg", workers=8, timeout=900),
                  note="Terminates / EachRunTerminates: a valid run always reaches 'done' (no crash transition exists in the design)")
        chk.model("Instance_mc.cfg", tlc.run("Instance.tla", "Instance_mc.cfg", workers=8, timeout=900),
                  note="RefusedMeansNoConfig: an invalid call is refused before anything changes")


def main_for(chk: Check, pid: str, models: bool = True):
    if models:
        run_models(chk, pid)
        if pid in ("C01", "C02", "C03", "C05", "C10", "C15"):
            from . import popgen
            popgen.run(chk, pid)        # (G) behaviours of PopMachine stepped through the real loop
    v = corpus.corpus(chk.tier, chk.seed)
    records = v["records"]
    byid = {r["id"]: r for r in records}
    chk.states += v["states"]
    chk.transitions += v["states"]
    chk.traces = len(records)
    chk.evaluations = len(records)
    if v["errors"]:
        chk.machinery.append(f"{len(v['errors'])} corpus runs died in the harness: {v['errors'][:3]}")
    prefix = pid + "."
    flagged_ids = set()
    for rid, clause in v["bad"]:
        if not clause.startswith(prefix):
            continue
        rec = byid[rid]
        flagged_ids.add(rid)
        if clause == "C06.crash" and rec["encoding"] not in CONT_ENC:
            continue            # integer-coded tasks: judged per (optimizer, encoding) pair below
        for key in explain(rec, clause):
            chk.violation(clause, key, {"run": rec["spec"], "crash": rec.get("crash"), "crash_msg": rec.get("crash_msg"),
                                        "mode": rec["mode"]})
    if pid == "C06":
        # a (optimizer, encoding) pair must not fail wholesale (at least half of its runs) unless listed
        rng = random.Random(chk.seed + 17)
        pairs = int_pairs(records)
        suspects = [(k, e) for k, e in pairs.items() if e[1] * 2 >= e[0] and e[1] > 0]
        extra_specs = []
        for (opt, enc), e in suspects:
            for _ in range(12):
                extra_specs.append({"id": 10_000_000 + len(extra_specs), "opt": opt, "desc": gen.task_desc(rng, enc),
                                    "cfg": gen.config_dict(rng, opt, max_cycles=rng.choice([2, 3])), "mode": "serial", "workers": None, "tag": "int"})
        extra = [r for r in corpus.run_all(extra_specs)] if extra_specs else []
        chk.evaluations += len(extra)
        for r in extra:
            if "skipped" in r or "harness_error" in r:
                continue
            e = pairs[(r["opt"], r["encoding"])]
            e[0] += 1
            if r["crash"]:
                e[1] += 1
                e[2][r["crash"]] += 1
        for (opt, enc), e in sorted(pairs.items()):
            if e[1] * 2 >= e[0] and e[1] > 0:
                top = e[2].most_common(1)[0][0]
                chk.violation("C06.wholesale", {"optimizer": opt, "space": enc},
                              {"runs": e[0], "crashes": e[1], "most_common": top, "all": dict(e[2])})
        chk.extra["int_pairs"] = {f"{o}/{en}": f"{e[1]}/{e[0]}" for (o, en), e in sorted(pairs.items()) if e[1]}
    # extensions of the specification beyond the listed properties (spec/AlgoRel.tla): reported, never a verdict
    ext = collections.defaultdict(collections.Counter)
    for rid, clause in v["bad"]:
        if clause.startswith("X."):
            ext[clause][byid[rid]["opt"]] += 1
    chk.extra["extensions"] = {
        "module": "AlgoRel.tla",
        "clauses": {"X.cycle": "cycle counter seen by step k is k", "X.rates": "k-1 rates / differences recorded when step k starts",
                    "X.leader": "best agent seen by a step is a best member of its starting population",
                    "X.slotwise": f"greedy-per-agent optimizers ({len(gen.GREEDY_EACH)}): no slot gets worse", "X.greywolf": "alpha/beta/gamma = three best",
                    "X.pso": "pbest[i] = best visited by particle i", "X.bee": "trial counters below the scouting limit"},
        "steps_judged": sum(max(0, r.get("n_snaps", 0) - 1) for r in records),
        "failed": {cl: dict(c) for cl, c in ext.items()},
    }
    for cl, c in ext.items():
        print(f"EXTENSION-NOTE {cl} failed for {dict(c)} (refinement outside the listed properties; not a verdict)")
    # coverage
    for r in records:
        stop = "crash" if r["crash"] else ("max" if r["steps"] >= r["mc"] else "early")
        chk.distinct.add((r["opt"], r["encoding"], r["mode"], r["dir"], stop))
    chk.extra["runs_by_mode"] = dict(collections.Counter(r["mode"] for r in records))
    chk.extra["runs_by_encoding"] = dict(collections.Counter(r["encoding"] for r in records))
    chk.extra["optimizers"] = len({r["opt"] for r in records})
    chk.extra["objective_calls"] = sum(r.get("x_ncalls", 0) for r in records)
    chk.extra["agents_judged"] = sum(r.get("n_agents", 0) for r in records)
    chk.extra["skipped_configs"] = len(v["skipped"])
    chk.extra["corpus_cached"] = v.get("cached", False)
    ok = [r for r in records if r["completed"] and r["id"] not in flagged_ids and not r.get("slim")]
    if ok:
        r = ok[len(ok) // 2]
        chk.sample({k: r[k] for k in ("id", "opt", "mode", "N", "dir", "D", "mc", "steps", "gens", "crash")}
                   | {"snaps[0][:3]": r["snaps"][0][:3], "evo[-1][:3]": r["evo"][-1][:3], "best": r["best"],
                      "ptab[:3]": r["ptab"][:3], "calls_per_phase": [len(c) for c in r["calls"]], "task": r["spec"]["desc"]["vars"]})
    canaries(chk, pid, ok)
    if pid == "C17":
        # an optimizer whose greedy-per-agent refinement (X.slotwise) failed is a suspect: its replacement is no longer purely
        # greedy, and whether the BEST agent is ever hit is a matter of many more cycles - escalate the sweep for it
        suspects = sorted(set(ext.get("X.slotwise", {})) - gen.NON_ELITIST)
        elite_sweep(chk, suspects)
    if pid == "C03":
        pooled_best_sweep(chk)
    if pid == "C09":
        touch_sweep(chk)
    if pid == "C06":
        # second half of the property: an invalid call is rejected up front (Instance histories with OptimizeBadCall,
        # Optimize without configuration, SetConfig with a bad dictionary), replayed on all 84 classes
        from . import instance
        keep = (chk.traces, chk.evaluations, set(chk.distinct), list(chk.samples))
        instance.main_for(chk, "C06")
        chk.traces += keep[0]
        chk.evaluations += keep[1]
        chk.distinct |= keep[2]
        chk.samples = keep[3] + chk.samples[:2]
    chk.assumptions += [
        "alpha: positions -> ids (exact value interning), costs -> signed dense ranks (order/equality/negation preserving), "
        "coordinates -> membership classes computed from the task DESCRIPTOR (never from Task.get_bounds/is_valid_solution)",
        "objective oracle = the harness's own pure function, re-evaluated post hoc at every reported position and "
        "cross-checked with the calls recorded during the run; weighted sums accepted within the forward error bound",
        "fitness formula and rate = |1 - mean fitness| are numeric leaves checked by the harness (4e-16 / 1e-12 relative)",
        "tasks, configurations and seeds are sampled (seeded generators), not enumerated; exhaustive only for the mechanism model",
    ]


def _clone(r):
    return json.loads(json.dumps({k: r[k] for k in corpus.TLC_FIELDS}))


def canaries(chk: Check, pid: str, ok: list[dict]):
    """corrupted copies of real, accepted traces must be rejected with the expected clause"""
    can, want = [], {}

    def add(c, clause):
        c["id"] = len(can) + 1
        can.append(c)
        want[c["id"]] = clause

    pool = [r for r in ok if r["gens"] >= 3 and r["N"] >= 3 and r["sizecls"] == "exact" and r["encoding"] in CONT_ENC][:40]
    for r in pool[:3]:
        c = _clone(r)
        if pid == "C01":
            p = c["evo"][1][0][0]
            c["ptab"][p - 1][0] = 4          # first coordinate above its upper bound
            add(c, "C01.gen")
        elif pid == "C02":
            c["evo"][1][0][1] = c["evo"][1][0][1] + 1 if c["evo"][1][0][1] != 0 else 1     # one cost off by one rank
            add(c, "C02.cost")
        elif pid == "C03":
            last = c["evo"][-1]
            worst = max(last, key=lambda a: a[1]) if c["dir"] == "min" else min(last, key=lambda a: a[1])
            if worst[1] != c["best"][1]:
                c["best"] = [worst[0], worst[1], 1]
                add(c, "C03.opt")
        elif pid == "C05":
            p = c["calls"][1][0] if len(c["calls"]) > 1 and c["calls"][1] else c["calls"][0][0]
            c["ptab"][p - 1][0] = 5          # NaN coordinate in an argument of the objective
            add(c, "C05.arg")
        elif pid == "C06":
            c["crash"] = "TypeError@x.y"
            c["completed"] = False
            add(c, "C06.crash")
        elif pid == "C09":
            c["cfg_same"] = False
            add(c, "C09.cfg")
        elif pid == "C10":
            c["evo"][1] = c["evo"][1][:-1]
            c["snaps"][1] = c["snaps"][1][:-1]
            add(c, "C10.exact")
        elif pid == "C15":
            a = c["evo"][1][0]
            c["evo"][1][0] = [c["evo"][2][0][0], a[1], a[2]] if c["evo"][2][0][0] != a[0] else [a[0], a[1] + 1, a[2]]
            add(c, "C15.hist")
        elif pid == "C17" and r["elitist"]:
            g = c["snaps"][2]
            m = min(a[1] for a in c["snaps"][1])
            c["snaps"][2] = [[a[0], max(a[1], m + 1)] for a in g]
            add(c, "C17.mono")
        elif pid == "C04":
            c["steps"] -= 1
            if c["steps"] >= 1 and c["steps"] < c["mc"] and not (c["hasFe"] or c["hasEs"]):
                add(c, "C04.early")
    if not can:
        return
    bad, _, _ = corpus.judge("TracePop.tla", "TracePop.cfg", can, f"canary-{pid}", jobs=1)
    for i, cl in want.items():
        chk.canary(f"{cl}#{i}", (i, cl) in set(bad), "corrupted copy of an accepted real trace")


def replay(chk: Check, rec: dict, pid: str | None = None):
    """./check <ID> --replay <file>: re-execute the recorded run against the current tree and judge it again"""
    pid = pid or rec.get("property", chk.pid)
    spec = (rec.get("witness") or {}).get("run")
    if not spec:
        print("replay file carries no run descriptor; re-running the whole check")
        return main_for(chk, pid)
    spec = dict(spec, id=1)
    out = corpus.run_all([spec], jobs=1)
    recs = [r for r in out if "skipped" not in r and "harness_error" not in r]
    if not recs:
        chk.machinery.append(f"the recorded run could not be re-executed: {out}")
        return
    bad, st, _ = corpus.judge_runs(recs, f"replay-{pid}")
    chk.states += st
    chk.transitions += st
    chk.traces = 1
    chk.evaluations = 1
    r = recs[0]
    print(f"replayed {r['opt']} mode={r['mode']} crash={r['crash']!r} steps={r['steps']} verdicts={sorted(cl for _, cl in bad)}")
    for _, clause in bad:
        if clause.startswith(pid + "."):
            if clause == "C06.crash" and r["encoding"] not in CONT_ENC:
                chk.violation("C06.wholesale", {"optimizer": r["opt"], "space": r["encoding"]}, {"run": spec, "crash": r["crash"]})
                continue
            for key in explain(r, clause):
                chk.violation(clause, key, {"run": spec, "crash": r.get("crash")})
    chk.distinct.add((r["opt"], r["encoding"]))
    chk.distinct.add(("replay", pid))
    chk.sample({"opt": r["opt"], "crash": r["crash"], "steps": r["steps"], "verdicts": sorted(cl for _, cl in bad)})


def _elite_run(spec):
    """one long untraced run; returns the best cost of every generation (user's sign)"""
    import contextlib, io, warnings
    import numpy as np
    import pyvolutionary
    from . import tasks
    opt, desc = spec["opt"], spec["desc"]
    try:
        cfg = getattr(pyvolutionary, gen.FIX[opt]["config_class"])(**spec["cfg"])
    except Exception:
        return None
    if gen.precondition(opt, spec["cfg"], desc):
        return None
    tasks.REC.reset()
    try:
        with contextlib.redirect_stdout(io.StringIO()), warnings.catch_warnings(), np.errstate(all="ignore"):
            warnings.simplefilter("ignore")
            res = getattr(pyvolutionary, opt)(cfg).optimize(tasks.build_task(desc, cls=tasks.PlainTask))
    except Exception:
        return None            # crashes are C06's business
    mx = desc["minmax"] == "max"
    bests = [(max if mx else min)(a.cost for a in g.agents) for g in res.evolution]
    return {"opt": opt, "dir": desc["minmax"], "bests": bests, "best": res.best_solution.cost, "spec": spec}


def elite_sweep(chk: Check, suspects=()):
    """C17 needs the best agent itself to be hit by a faulty replacement: many long runs of every claimed optimizer"""
    import concurrent.futures as cf
    rng = random.Random(chk.seed + 4242)
    thorough = chk.tier == "thorough"
    specs = []
    for opt in gen.OPTIMIZERS:
        if opt in gen.NON_ELITIST and not gen.elitist(opt, gen.FIX[opt]["config"]):
            continue
        conditional = opt in gen.NON_ELITIST      # claimed for some configuration shapes only: sample those shapes more densely
        for _ in range((120 if thorough else 12) + (150 if opt in suspects else 0) + (60 if conditional else 0)):
            d = gen.task_desc(rng, rng.choice(["contmulti", "cont"]), dim=rng.choice([1, 2, 3, 5]))
            d["scale"] = rng.choice([1.0, 1.0, 1.0, 1e-20, 1e12])
            # population sizes that are not multiples of the optimizer's group count (residual groups) in a third of the runs
            cfgd = gen.config_dict(rng, opt, scale=1, max_cycles=(rng.choice([40, 60]) if thorough else 40), stop="cycles", jit=rng.random() < 0.3,
                                   plus=rng.choice([0, 0, 0, 0, 1, 2, 3]))
            if gen.elitist(opt, cfgd):
                specs.append({"opt": opt, "desc": d, "cfg": cfgd})
    with cf.ProcessPoolExecutor(14) as ex:
        outs = [r for r in ex.map(_elite_run, specs, chunksize=6) if r]
    recs = []
    for k, r in enumerate(outs):
        rk = corpus.Ranker()
        for v in r["bests"] + [r["best"]]:
            rk.add(v)
        rk.freeze()
        recs.append({"id": k + 1, "kind": "elite", "dir": r["dir"], "bests": [rk.rk(v) for v in r["bests"]], "best": rk.rk(r["best"])})
    bad, st, consumed = corpus.judge("TraceElite.tla", "TraceElite.cfg", recs, "elite", jobs=8, per_batch=400)
    chk.states += st
    chk.transitions += st
    chk.traces += consumed
    chk.evaluations += consumed
    for rid, clause in bad:
        r = outs[rid - 1]
        chk.violation(clause, {"optimizer": r["opt"]}, {"run": r["spec"], "bests": r["bests"][:80]})
    chk.extra["elite_sweep_runs"] = consumed
    chk.extra["elite_sweep_escalated_for"] = list(suspects)
    chk.extra["elite_sweep_generations"] = sum(len(r["bests"]) for r in outs)
    for r in outs:
        chk.distinct.add((r["opt"], "long", r["dir"], len(r["bests"])))
    # canary
    ok = [r for k, r in enumerate(recs) if (k + 1) not in {i for i, _ in bad} and len(r["bests"]) > 5]
    if ok:
        c = json.loads(json.dumps(ok[0]))
        c["id"] = 1
        worse = max(c["bests"]) + 1 if c["dir"] == "min" else min(c["bests"]) - 1
        c["bests"][3] = worse
        cbad, _, _ = corpus.judge("TraceElite.tla", "TraceElite.cfg", [c], "elite-canary", jobs=1)
        chk.canary("C17.mono#long", (1, "C17.mono") in set(cbad), "one generation's best cost of a real long run made worse")


def _touch_run(spec):
    """one run on an input OUTSIDE the corpus (a low-dimensional task, a configuration/task pair that violates a documented
    precondition): the run may raise - C09 says the caller's objects are left untouched 'also when it raises'"""
    import contextlib, io, signal, warnings
    import numpy as np
    import pyvolutionary
    from . import tasks
    opt, desc = spec["opt"], spec["desc"]
    try:
        cfg = getattr(pyvolutionary, gen.FIX[opt]["config_class"])(**spec["cfg"])
    except Exception:
        return None
    task = tasks.build_task(desc, cls=tasks.PlainTask)
    cfg0, task0 = corpus._dump_model(cfg), corpus._dump_model(task)
    tasks.REC.reset()
    raised = ""

    def _alarm(*_):
        raise TimeoutError("touch run")
    signal.signal(signal.SIGALRM, _alarm)
    signal.alarm(60)
    try:
        with contextlib.redirect_stdout(io.StringIO()), warnings.catch_warnings(), np.errstate(all="ignore"):
            warnings.simplefilter("ignore")
            getattr(pyvolutionary, opt)(cfg).optimize(task)
    except TimeoutError:
        return None
    except Exception as ex:
        raised = type(ex).__name__
    finally:
        signal.alarm(0)
    cfg1, task1 = corpus._dump_model(cfg), corpus._dump_model(task)
    return {"opt": opt, "spec": spec, "raised": raised, "cfg_same": cfg0 == cfg1, "task_same": task0 == task1,
            "cfg_diff": corpus._field_diff(cfg0, cfg1) if cfg0 != cfg1 else [],
            "task_diff": corpus._field_diff(task0, task1) if task0 != task1 else []}


def touch_sweep(chk: Check):
    """C09 outside the corpus's input space: every optimizer on 1- and 2-dimensional tasks (continuous, discrete, binary)
    with documented and jittered configurations, INCLUDING the pairs the corpus skips for a violated precondition; whatever the
    run does (many of these raise), the caller's configuration and task must be left as they were.  Judged by TraceInstance
    (CallerUntouched of Instance.tla on a Construct - Optimize history without reference runs)."""
    import concurrent.futures as cf
    from .judge import judge
    rng = random.Random(chk.seed + 909)
    thorough = chk.tier == "thorough"
    specs = []
    for opt in gen.OPTIMIZERS:
        for k in range(16 if thorough else 4):
            d = gen.task_desc(rng, ["cont", "contmulti", "disc", "bin"][k % 4], dim=1 + (k // 2) % 2)
            specs.append({"opt": opt, "desc": d, "cfg": gen.config_dict(rng, opt, scale=1, max_cycles=3, stop="cycles", jit=k % 2 == 1)})
    with cf.ProcessPoolExecutor(14) as ex:
        outs = [r for r in ex.map(_touch_run, specs, chunksize=4) if r]
    recs = []
    for k, r in enumerate(outs):
        recs.append({"id": k + 1, "events": [
            {"ev": "Construct", "c": 1, "raised": ""},
            {"ev": "Optimize", "t": 1, "cfgid": 1, "cfgafter": 1, "raised": r["raised"], "digest": 0,
             "caller_same": r["cfg_same"], "task_same": r["task_same"], "earlier_same": True}]})
    bad, st, consumed = judge("TraceInstance.tla", "TraceInstance.cfg", recs, "touch", jobs=8, per_batch=400)
    chk.states += st
    chk.transitions += st
    chk.traces += consumed
    chk.evaluations += consumed
    for rid, clause in bad:
        r = outs[rid - 1]
        base = {"optimizer": r["opt"]}
        for f in (r["cfg_diff"] if clause == "C09.cfg" else r["task_diff"]) or [None]:
            chk.violation(clause, {**base, "field": f} if f else base, {"run": r["spec"], "raised": r["raised"]})
    chk.extra["touch_sweep_runs"] = consumed
    chk.extra["touch_sweep_raising_runs"] = sum(1 for r in outs if r["raised"])
    for r in outs:
        chk.distinct.add((r["opt"], "touch", r["spec"]["desc"]["encoding"], r["spec"]["desc"]["dim"] if "dim" in r["spec"]["desc"] else 0, bool(r["raised"])))
    ok = [r for k, r in enumerate(recs) if (k + 1) not in {i for i, _ in bad}]
    if ok:
        c = json.loads(json.dumps(ok[0]))
        c["id"] = 1
        c["events"][1]["caller_same"] = False
        cbad, _, _ = judge("TraceInstance.tla", "TraceInstance.cfg", [c], "touch-canary", jobs=1)
        chk.canary("C09.cfg#touch", (1, "C09.cfg") in set(cbad), "a configuration field of a real low-dimensional run reported as changed")


def _pooled_run(spec):
    import contextlib, io, warnings
    import numpy as np
    import pyvolutionary
    from . import tasks
    opt, desc = spec["opt"], spec["desc"]
    try:
        cfg = getattr(pyvolutionary, gen.FIX[opt]["config_class"])(**spec["cfg"])
    except Exception:
        return None
    if gen.precondition(opt, spec["cfg"], desc):
        return None
    tasks.REC.reset()
    try:
        with contextlib.redirect_stdout(io.StringIO()), warnings.catch_warnings(), np.errstate(all="ignore"):
            warnings.simplefilter("ignore")
            res = getattr(pyvolutionary, opt)(cfg).optimize(tasks.build_task(desc, cls=tasks.PlainTask), mode=spec["mode"], workers=spec["workers"])
    except Exception:
        return None
    ids = {}
    last = [[ids.setdefault(corpus._key(a.position), len(ids) + 1), a.cost] for a in res.evolution[-1].agents]
    b = res.best_solution
    return {"opt": opt, "dir": desc["minmax"], "last": last, "best": [ids.setdefault(corpus._key(b.position), len(ids) + 1), b.cost], "spec": spec}


def pooled_best_sweep(chk: Check):
    """C03 'generations whose order was permuted by a parallel pool': extra thread-mode runs of every optimizer, judged
    by PopRel!BestIsOptimum (TraceElite.tla, kind best)"""
    import concurrent.futures as cf
    rng = random.Random(chk.seed + 777)
    specs = []
    for opt in gen.OPTIMIZERS:
        for _ in range(12 if chk.tier == "thorough" else 4):
            d = gen.task_desc(rng, "contmulti", dim=rng.choice([2, 3]))
            d["family"] = rng.choice(["step", "sphere", "linear"])        # plateaus give ties
            specs.append({"opt": opt, "desc": d, "cfg": gen.config_dict(rng, opt, max_cycles=rng.choice([2, 3, 4])),
                          "mode": "thread", "workers": rng.choice([2, 3, 8])})
    with cf.ProcessPoolExecutor(14) as ex:
        outs = [r for r in ex.map(_pooled_run, specs, chunksize=4) if r]
    recs = []
    for k, r in enumerate(outs):
        rk = corpus.Ranker()
        for _, u in r["last"]:
            rk.add(u)
        rk.add(r["best"][1])
        rk.freeze()
        recs.append({"id": k + 1, "kind": "best", "dir": r["dir"], "last": [[p, rk.rk(u)] for p, u in r["last"]],
                     "best": [r["best"][0], rk.rk(r["best"][1])], "bests": [], "best_": 0})
    bad, st, consumed = corpus.judge("TraceElite.tla", "TraceElite.cfg", recs, "pooledbest", jobs=6, per_batch=200)
    chk.states += st
    chk.transitions += st
    chk.traces += consumed
    chk.evaluations += consumed
    for rid, clause in bad:
        chk.violation(clause, {"optimizer": outs[rid - 1]["opt"], "mode": "thread"}, {"run": outs[rid - 1]["spec"]})
    chk.extra["pooled_best_sweep_runs"] = consumed
