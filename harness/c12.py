"""C12 — maximising f is exactly minimising -f.

(M) Dual.tla: two runs in lock-step over the same candidate stream; holds for every step kind that compares internal
    costs, fails for a step that reads fitness and for two named deviations (direction-aware sort, sign not restored).
(V) for every fitness-free optimizer (83 of 84: AntLion excluded, backed by an AST scan) and sampled (f, bounds,
    configuration, seed): the real runs (max, f) and (min, -f) are recorded and TLC (TraceDual.tla) checks that the
    positions are identical and the costs exact negatives, generation by generation.
"""
from __future__ import annotations

import ast
import concurrent.futures as cf
import contextlib
import glob
import io
import json
import os
import random
import warnings

from . import gen, tlc
from .common import Check
from .corpus import Ranker, _key, crash_site
from .judge import judge

RULE = ("pairs = (optimizer, task family, bounds regime, configuration with fitness_error=None, seed) sampled by seeded "
        "generators for every fitness-free optimizer; distinct = (optimizer, family, regime, dimension, scale)")


def fitness_readers() -> set[str]:
    """AST scan of the algorithm packages: classes whose module reads `.fitness` (diagnostic backing the exclusion table)"""
    repo = os.environ.get("VERIF_REPO", "/repo")
    out = set()
    for f in glob.glob(f"{repo}/pyvolutionary/*/*.py"):
        if f.endswith("models.py") or "/__init__" in f:
            continue
        tree = ast.parse(open(f).read())
        reads = any(isinstance(n, ast.Attribute) and n.attr == "fitness" and isinstance(n.ctx, ast.Load) for n in ast.walk(tree))
        if reads:
            out |= {n.name for n in tree.body if isinstance(n, ast.ClassDef)}
    return out


def run_pair(spec):
    import sys
    import numpy as np
    import pyvolutionary
    from . import tasks as T
    opt, desc, cfgd = spec["opt"], spec["desc"], spec["cfg"]
    X = getattr(pyvolutionary, opt)
    C = getattr(pyvolutionary, gen.FIX[opt]["config_class"])
    try:
        cfgA, cfgB = C(**cfgd), C(**cfgd)
    except Exception as ex:
        return {"id": spec["id"], "opt": opt, "skipped": type(ex).__name__}
    why = gen.precondition(opt, cfgd, desc)
    if why:
        return {"id": spec["id"], "opt": opt, "skipped": why}
    dA = {**desc, "minmax": "max", "negate": False}
    dB = {**desc, "minmax": "min", "negate": True}
    res, crash = {}, {}
    for tag, d, cfg in (("A", dA, cfgA), ("B", dB, cfgB)):
        T.REC.reset()
        try:
            with contextlib.redirect_stdout(io.StringIO()), warnings.catch_warnings(), np.errstate(all="ignore"):
                warnings.simplefilter("ignore")
                res[tag] = X(cfg).optimize(T.build_task(d))
            crash[tag] = ""
        except Exception as ex:
            res[tag] = None
            crash[tag] = f"{type(ex).__name__}@{crash_site(sys.exc_info()[2])}"
    pids, rk = {}, Ranker()

    def pid(pos):
        return pids.setdefault(_key(pos), len(pids) + 1)
    for r in res.values():
        if r is not None:
            for g in r.evolution:
                for a in g.agents:
                    rk.add(a.cost)
            rk.add(r.best_solution.cost)
    rk.freeze()

    def evo(r):
        return [[[pid(a.position), rk.rk(a.cost)] for a in g.agents] for g in r.evolution] if r is not None else []

    def best(r):
        return [pid(r.best_solution.position), rk.rk(r.best_solution.cost)] if r is not None else [0, 0]
    return {"id": spec["id"], "opt": opt, "evoA": evo(res["A"]), "evoB": evo(res["B"]), "bestA": best(res["A"]), "bestB": best(res["B"]),
            "crashA": crash["A"], "crashB": crash["B"], "spec": spec}


def main(chk: Check):
    thorough = chk.tier == "thorough"
    chk.model("Dual_mc.cfg", tlc.run("Dual.tla", "Dual_mc.cfg", workers=8, timeout=900),
              note="DualOK, TruthA, TruthB for greedy, greedy-population, extend-and-trim, replace-all")
    for cfg in ("Dual_fitness.cfg", "Dual_sortmax.cfg", "Dual_outsign.cfg"):
        chk.model(cfg, tlc.run("Dual.tla", cfg, workers=4, timeout=600), expect="DualOK", note="named deviation")
    readers = fitness_readers()
    scanned = {o for o in gen.OPTIMIZERS if o in readers}
    # the table of excluded optimizers is part of the property (83 of 84); a class that newly reads fitness is NOT
    # excluded - it gets more pairs instead, and only an observed divergence is a verdict
    newly = sorted(scanned - gen.READS_FITNESS)
    chk.extra["ast_scan_reads_fitness"] = sorted(scanned)
    if newly:
        print(f"note: {newly} read Agent.fitness according to the AST scan but are not in the exclusion table; they get extra pairs")
    rng = random.Random(chk.seed)
    specs = []
    per = 40 if thorough else 6
    for opt in gen.OPTIMIZERS:
        if opt in gen.READS_FITNESS:
            continue
        for _ in range(per * (5 if opt in newly else 1)):
            enc = rng.choice(["contmulti", "contmulti", "cont", "multiobj"])
            specs.append({"id": len(specs) + 1, "opt": opt, "desc": gen.task_desc(rng, enc),
                          "cfg": gen.config_dict(rng, opt, scale=rng.choice([1, 1, 1.5, 2]), max_cycles=rng.choice([2, 3, 4, 6]), stop="cycles", jit=(rng.random() < 0.5 or opt in newly))})
    with cf.ProcessPoolExecutor(14) as ex:
        recs = list(ex.map(run_pair, specs, chunksize=8))
    records = [r for r in recs if "skipped" not in r]
    slim = [{k: r[k] for k in ("id", "evoA", "evoB", "bestA", "bestB", "crashA", "crashB")} for r in records]
    bad, st, consumed = judge("TraceDual.tla", "TraceDual.cfg", slim, "c12", jobs=12, per_batch=200)
    chk.states += st
    chk.transitions += st
    chk.traces = 2 * consumed
    chk.evaluations = 2 * len(records)
    byid = {r["id"]: r for r in records}
    for rid, clause in bad:
        r = byid[rid]
        if clause == "C12.crash":
            # a crash is C06's business unless only ONE of the two dual runs crashes
            if (r["crashA"] == "") == (r["crashB"] == ""):
                continue
            clause = "C12.crash_one_side"
        elif r["crashA"] or r["crashB"]:
            continue
        chk.violation(clause, {"optimizer": r["opt"]}, {"pair": r["spec"], "crashA": r["crashA"], "crashB": r["crashB"]})
    for r in records:
        d = r["spec"]["desc"]
        chk.distinct.add((r["opt"], d["family"], d["regime"], d["dim"], r["spec"]["cfg"]["population_size"]))
    ok = [r for r in records if not r["crashA"] and not r["crashB"] and r["id"] not in {i for i, _ in bad}]
    if ok:
        r = ok[len(ok) // 2]
        chk.sample({"opt": r["opt"], "task": r["spec"]["desc"]["vars"], "family": r["spec"]["desc"]["family"],
                    "evoA[1][:3]": r["evoA"][1][:3], "evoB[1][:3]": r["evoB"][1][:3], "bestA": r["bestA"], "bestB": r["bestB"]})
    can, want = [], {}
    for r in ok[:3]:
        c = json.loads(json.dumps({k: r[k] for k in ("evoA", "evoB", "bestA", "bestB", "crashA", "crashB")}))
        c["id"] = len(can) + 1
        c["evoB"][1][0][1] = c["evoB"][1][0][1] + 1
        can.append(c)
        want[c["id"]] = "C12.cost"
    for r in ok[3:6]:
        c = json.loads(json.dumps({k: r[k] for k in ("evoA", "evoB", "bestA", "bestB", "crashA", "crashB")}))
        c["id"] = len(can) + 1
        c["evoA"][-1][0][0] = 999999
        can.append(c)
        want[c["id"]] = "C12.pos"
    if can:
        cbad, _, _ = judge("TraceDual.tla", "TraceDual.cfg", can, "c12-canary", jobs=1)
        for i, cl in want.items():
            chk.canary(f"{cl}#{i}", (i, cl) in set(cbad), "one cost / position of a real dual pair altered")
    chk.extra["optimizers"] = len({r["opt"] for r in records})
    chk.extra["excluded_reads_fitness"] = sorted(gen.READS_FITNESS)
    chk.extra["skipped"] = len(recs) - len(records)
    chk.assumptions += ["floating-point negation is exact, so 'exact negatives' is decided on negation-preserving ranks",
                        "both runs use the library's own Task.seed; configurations stop by cycle count only (fitness differs between the two runs by design)"]
