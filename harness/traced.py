"""Module-level traced subclasses of all exported optimizers (ordinary importable classes: they pickle into forked
pool workers; name-mangled private fields of the parents keep working).  They only *observe*:
  * after _init_population and after every optimization_step a deep snapshot (position, cost, fitness) of the
    population is appended to self._vsnaps, and the recorder's phase counter is advanced;
  * nothing in the algorithm is altered.
"""
from __future__ import annotations

import copy
import inspect
import os
import sys

sys.path.insert(0, os.environ.get("VERIF_REPO", "/repo"))
import pyvolutionary  # noqa: E402
from pyvolutionary.abstract import OptimizationAbstract  # noqa: E402

from .tasks import REC  # noqa: E402


def _snap(pop):
    return [(copy.deepcopy(a.position), a.cost, a.fitness) for a in pop]


def _aux(self):
    """algorithm-private observables for the refinement modules of spec/AlgoRel.tla (read-only)"""
    n = type(self).__mro__[1].__name__
    try:
        if n == "GreyWolfOptimization":
            return {"leaders": [(copy.deepcopy(w.position), w.cost) for w in
                                (self._GreyWolfOptimization__alpha_wolf, self._GreyWolfOptimization__beta_wolf, self._GreyWolfOptimization__gamma_wolf)]}
        if n == "ParticleSwarmOptimization":
            return {"pbest": [(copy.deepcopy(a.position), a.cost) for a in self._ParticleSwarmOptimization__pbest]}
        if n == "BeeColonyOptimization":
            return {"trials": [int(a.trials) for a in self._population], "limit": int(self._config.scouting_limit)}
    except Exception as ex:      # an observation must never disturb the run
        return {"aux_error": type(ex).__name__}
    return None


def _make(base):
    def _init_population(self):
        self._vsnaps = []
        self._vsteps = 0
        self._vcyc = []          # _current_cycle seen at the start of every optimization_step
        self._vlead = []         # _best_agent (position, cost) seen at the start of every optimization_step
        self._vaux = []
        self._vnerr = []         # (len(_errors), len(_error_diffs)) seen at the start of every optimization_step
        REC.phase = 0
        base._init_population(self)
        self._vsnaps.append(_snap(self._population))
        REC.phase = 1
        self._vaux.append(None)

    def optimization_step(self):
        self._vsteps += 1
        REC.phase = self._vsteps
        self._vcyc.append(int(self._current_cycle))
        self._vnerr.append((len(self._errors), len(self._error_diffs)))
        b = self._best_agent
        self._vlead.append((copy.deepcopy(b.position), b.cost) if b is not None else None)
        base.optimization_step(self)
        self._vsnaps.append(_snap(self._population))
        self._vaux.append(_aux(self))

    return type("Traced_" + base.__name__, (base,), {"_init_population": _init_population,
                                                     "optimization_step": optimization_step, "__module__": __name__})


CLASSES = {n: v for n, v in vars(pyvolutionary).items()
           if inspect.isclass(v) and issubclass(v, OptimizationAbstract) and v is not OptimizationAbstract}
TRACED = {}
for _n, _v in CLASSES.items():
    _t = _make(_v)
    TRACED[_n] = _t
    globals()[_t.__name__] = _t
