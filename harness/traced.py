"""Module-level traced subclasses of all exported optimizers (ordinary importable classes: they pickle into forked
pool workers; name-mangled private fields of the parents keep working).  They only *observe*:
  * after _init_population and after every optimization_step a deep snapshot (position, cost, fitness) of the
    population is appended to self._vsnaps, and the recorder's phase counter is advanced;
  * nothing in the algorithm is altered.
"""
from __future__ import annotations

import copy
import inspect
import os
import sys

sys.path.insert(0, os.environ.get("VERIF_REPO", "/repo"))
import pyvolutionary  # noqa: E402
from pyvolutionary.abstract import OptimizationAbstract  # noqa: E402

from .tasks import REC  # noqa: E402


def _snap(pop):
    return [(copy.deepcopy(a.position), a.cost, a.fitness) for a in pop]


def _make(base):
    def _init_population(self):
        self._vsnaps = []
        self._vsteps = 0
        REC.phase = 0
        base._init_population(self)
        self._vsnaps.append(_snap(self._population))
        REC.phase = 1

    def optimization_step(self):
        self._vsteps += 1
        REC.phase = self._vsteps
        base.optimization_step(self)
        self._vsnaps.append(_snap(self._population))

    return type("Traced_" + base.__name__, (base,), {"_init_population": _init_population,
                                                     "optimization_step": optimization_step, "__module__": __name__})


CLASSES = {n: v for n, v in vars(pyvolutionary).items()
           if inspect.isclass(v) and issubclass(v, OptimizationAbstract) and v is not OptimizationAbstract}
TRACED = {}
for _n, _v in CLASSES.items():
    _t = _make(_v)
    TRACED[_n] = _t
    globals()[_t.__name__] = _t
