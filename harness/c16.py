"""C16 — selection helpers and replacement primitives.

(M) TLC checks Select.tla exhaustively (functional refinement of the code => relations) and three named
    deviations that must break a law.
(G) the very states TLC enumerated (state dump) are the cases fed to the REAL helpers.
(V) what the helpers returned is judged by TLC with the same relations (TraceSelect.tla).
"""
from __future__ import annotations

import concurrent.futures as cf
import json
import math
import os
import random
import sys
from pathlib import Path

from . import tlc, tlaval
from .judge import judge as _judge
from .common import Check, WORK

INF = 99


NEAR = {"on": False}


def _cost(c: int) -> float:
    if c >= INF or c <= -INF:
        return math.inf if c > 0 else -math.inf
    if NEAR["on"]:
        return 1000.0 + c * 2.0 ** -36      # same order, costs that agree in ~14 significant digits
    return float(c)


def _imports():
    sys.path.insert(0, os.environ.get("VERIF_REPO", "/repo"))
    import pyvolutionary  # noqa
    from pyvolutionary import helpers
    from pyvolutionary.abstract import OptimizationAbstract
    from pyvolutionary.models import Agent, BaseOptimizationConfig
    from pyvolutionary.enums import TaskType

    class Probe(OptimizationAbstract):
        def optimization_step(self):
            pass

        def set_config_parameters(self, parameters):
            pass

    return helpers, Probe, Agent, BaseOptimizationConfig, TaskType


def make_pop(Agent, costs, origin=0):
    return [Agent(position=[origin, k + 1], cost=_cost(c), fitness=0.0) for k, c in enumerate(costs)]


def idx_of(agents):
    return [int(a.position[1]) for a in agents]


def oidx_of(agents):
    return [[int(a.position[0]), int(a.position[1])] for a in agents]


def same(pop, snapshot):
    return len(pop) == len(snapshot) and all(a is b and a.cost == c and a.position == p
                                            for a, (b, c, p) in zip(pop, snapshot))


def snap(pop):
    return [(a, a.cost, list(a.position)) for a in pop]


def run_case(env, c: dict) -> dict:
    helpers, Probe, Agent, Cfg, TaskType = env
    kind = c["kind"]
    r = dict(c)
    if kind == "sel":
        pop = make_pop(Agent, c["pop"])
        s = snap(pop)
        tt = TaskType(c["dir"])
        n = c["n"]
        r["best"] = idx_of(helpers.best_agents(pop, n, tt))
        r["worst"] = idx_of(helpers.worst_agents(pop, n, tt))
        r["besti"] = [int(k) + 1 for k in helpers.best_agents_indexes(pop, n, tt)]
        r["worsti"] = [int(k) + 1 for k in helpers.worst_agents_indexes(pop, n, tt)]
        r["sort"] = idx_of(helpers.sort_by_cost(pop, tt))
        r["sorti"] = [int(k) + 1 for k in helpers.sort_by_cost_indexes(pop, tt)]
        r["trim"] = idx_of(helpers.sort_and_trim(pop, n))
        r["best1"] = idx_of([helpers.best_agent(pop, tt)])
        r["worst1"] = idx_of([helpers.worst_agent(pop, tt)])
        r["best1i"] = [int(helpers.best_agent_index(pop, tt)) + 1]
        r["worst1i"] = [int(helpers.worst_agent_index(pop, tt)) + 1]
        b, w = helpers.special_agents(pop, n_best=n, n_worst=n, task_type=tt)
        r["spbest"], r["spworst"] = idx_of(b), idx_of(w)
        r["untouched"] = same(pop, s)
    elif kind == "greedy":
        pop, new = make_pop(Agent, c["pop"], 0), make_pop(Agent, c["new"], 1)
        s, sn = snap(pop), snap(new)
        o = Probe(Cfg(population_size=len(pop), max_cycles=1))
        r["picks"] = ["new" if o._greedy_select_agent(a, b).position[0] == 1 else "old" for a, b in zip(pop, new)]
        o._population = pop
        o._greedy_select_population(new)
        r["out"] = oidx_of(o._population)
        # the same primitive through a real thread pool (the gathered order is free, the multiset of winners is not)
        from pyvolutionary.enums import ModeSolver
        o2 = Probe(Cfg(population_size=len(pop), max_cycles=1))
        o2._mode, o2._workers = ModeSolver.THREAD, 3
        o2._population = list(pop)
        o2._greedy_select_population(list(new))
        r["outp"] = oidx_of(o2._population)
        r["untouched"] = same(pop, s) and same(new, sn)
    elif kind == "ext":
        pop, new = make_pop(Agent, c["pop"], 0), make_pop(Agent, c["new"], 1)
        sn = snap(new)
        o = Probe(Cfg(population_size=c["N"], max_cycles=1))
        o._population = list(pop)
        o._extend_and_trim_population(new)
        # indexes into pop \o new
        r["out"] = [(a.position[1] if a.position[0] == 0 else len(pop) + a.position[1]) for a in o._population]
        o2 = Probe(Cfg(population_size=c["N"], max_cycles=1))
        o2._population = list(pop)
        if new:
            o2._replace_and_trim_population(new)
            r["rep"] = idx_of(o2._population)
        else:
            r["rep"] = []
        r["untouched"] = same(new, sn)
    elif kind == "group":
        pop = make_pop(Agent, [0] * c["size"])
        s = snap(pop)
        o = Probe(Cfg(population_size=c["size"], max_cycles=1))
        o._population = pop
        groups = o._generate_group_population(c["ng"], c["na"], c["resid"])
        r["out"] = [idx_of(g) for g in groups]
        ids = {id(a) for a in pop}
        r["untouched"] = same(pop, s) and all(id(a) not in ids for g in groups for a in g)
    return r


def random_cases(rng: random.Random, n: int, maxsize: int) -> list[dict]:
    """Larger populations than the exhaustive bound; costs are small integers so ties are frequent."""
    out = []
    for _ in range(n):
        size = rng.randint(7, maxsize)
        span = min(rng.choice([2, 3, size, 4 * size]), INF - 1)     # codes +-99 are reserved for the infinities
        alpha = [-INF, INF] + list(range(-span, span + 1))
        p = [rng.choice(alpha) for _ in range(size)]
        k = rng.random()
        if k < 0.5:
            out.append({"kind": "sel", "pop": p, "n": rng.randint(0, size), "dir": rng.choice(["min", "max"])})
        elif k < 0.75:
            out.append({"kind": "greedy", "pop": p, "new": [rng.choice(alpha) for _ in range(size)]})
        else:
            m = rng.randint(0, size + 3)
            out.append({"kind": "ext", "pop": p, "new": [rng.choice(alpha) for _ in range(m)], "N": size})
    return out


def judge(records, tag):
    return _judge("TraceSelect.tla", "TraceSelect.cfg", records, tag)


def corrupt(rec: dict, rng: random.Random) -> tuple[dict, str] | None:
    """A wrong answer that a sound judge must reject."""
    r = json.loads(json.dumps(rec))
    if r["kind"] == "sel":
        pop, n = r["pop"], r["n"]
        costs = sorted(set(pop))
        if len(costs) >= 2 and 1 <= n < len(pop):
            # put a strictly worse omitted agent in place of the best returned one
            best_cost = pop[r["best"][0] - 1]
            omitted = [k + 1 for k in range(len(pop)) if (k + 1) not in r["best"] and pop[k] != best_cost]
            worse = [k for k in omitted if (pop[k - 1] > best_cost) == (r["dir"] == "min")]
            if worse:
                r["best"][0] = worse[0]
                return r, "C16.best"
        return None
    if r["kind"] == "greedy":
        for k, (a, b) in enumerate(zip(r["pop"], r["new"])):
            if a != b:
                r["picks"][k] = "old" if r["picks"][k] == "new" else "new"
                return r, "C16.greedy_agent"
        return None
    if r["kind"] == "ext":
        if len(r["out"]) >= 1 and len(r["new"]) > 0:
            r["out"] = r["out"][:-1]
            return r, "C16.extend_and_trim"
        return None
    if r["kind"] == "group" and r["out"] and r["out"][0]:
        r["out"][0] = r["out"][0][:-1] + [r["out"][0][-1] + 1]
        return r, "C10.groups"
    return None


def main(chk: Check) -> None:
    thorough = chk.tier == "thorough"
    cfg = "Select_mc_thorough.cfg" if thorough else "Select_mc.cfg"
    dump = WORK / f"select-{os.getpid()}.dump"
    res = tlc.run("Select.tla", cfg, workers=16, timeout=3000, extra=["-dump", str(dump)])
    chk.model(cfg, res, note="functional refinement of helpers.py/abstract.py satisfies every relation, all cases")
    for dev, law in (("Select_ignoredir.cfg", "LawSort"), ("Select_wrongend.cfg", "LawBest"), ("Select_lesseq.cfg", "LawGreedy"), ("Select_modgroups.cfg", "LawGroups")):
        chk.model(dev, tlc.run("Select.tla", dev, workers=8, timeout=600), expect=law,
                  note="named deviation: shows the law is not vacuous")
    states = tlaval.parse_dump(dump)
    dump.unlink(missing_ok=True)
    cases = [s["c"] for s in states if s["c"]["kind"] != "pre"]
    if len(cases) < 1000:
        chk.machinery.append(f"only {len(cases)} cases recovered from the TLC dump")
    rng = random.Random(chk.seed)
    extra = random_cases(rng, 6000 if thorough else 600, 40 if thorough else 16)
    env = _imports()
    records = []
    for k, c in enumerate(cases + extra):
        r = run_case(env, c)
        r["id"] = k + 1
        records.append(r)
    # the same relations on costs that are nearly equal floats (order isomorphic to the integer codes): any rounding /
    # formatting / tolerance inside a comparison shows up here
    NEAR["on"] = True
    try:
        near = [c for c in cases if c["kind"] != "group"]
        near = near if thorough else near[::4]
        for c in near + extra:
            r = run_case(env, c)
            r["id"] = len(records) + 1
            r["near"] = True
            records.append(r)
    finally:
        NEAR["on"] = False
    chk.evaluations = len(records)
    bad, st, consumed = judge(records, "c16")
    chk.states += st
    chk.transitions += st
    chk.traces = consumed
    byid = {r["id"]: r for r in records}
    for rid, clause in bad:
        r = byid[rid]
        chk.violation(clause, {"helper": clause.split(".", 1)[1], "dir": r.get("dir", "-"),
                               "ties": len(set(r.get("pop", []))) < len(r.get("pop", [])), "near_equal_costs": bool(r.get("near"))}, {"record": r})
    for r in records:
        if r["kind"] == "sel":
            chk.distinct.add((r["kind"], len(r["pop"]), r["n"], r["dir"], len(set(r["pop"])) < len(r["pop"]),
                              any(abs(x) >= INF for x in r["pop"])))
        elif r["kind"] == "group":
            chk.distinct.add((r["kind"], r["size"], r["ng"], r["resid"]))
        else:
            chk.distinct.add((r["kind"], len(r["pop"]), len(r["new"]), len(set(r["pop"] + r["new"])) < len(r["pop"] + r["new"])))
    chk.sample(records[len(records) // 3])
    chk.sample(records[-1])
    # canaries: corrupted copies of real records must be rejected with the expected clause
    can, want = [], {}
    pool = records[:]
    rng.shuffle(pool)
    flagged_ids = {rid for rid, _ in bad}
    for r in pool:
        if r["id"] in flagged_ids:
            continue
        cr = corrupt(r, rng)
        if cr and sum(1 for w in want.values() if w == cr[1]) < 5:
            cr[0]["id"] = len(can) + 1
            can.append(cr[0])
            want[cr[0]["id"]] = cr[1]
        if len(can) >= 20:
            break
    cbad, _, _ = judge(can, "c16-canary")
    flagged = {(i, cl) for i, cl in cbad}
    for i, cl in want.items():
        chk.canary(f"{cl}#{i}", (i, cl) in flagged, "corrupted answer of a real helper call")
    chk.extra["cases_from_tlc"] = len(cases)
    chk.extra["random_larger_cases"] = len(extra)
    chk.assumptions += [
        "costs -99/99 of the model stand for -inf/+inf and are passed to the helpers as float infinities; NaN costs are outside the property",
        "agents are identified by a tag in their position; the helpers never rewrite positions (checked by input_untouched)",
        "larger random populations are sampled, not enumerated",
    ]
