"""Generators of task descriptors and optimizer configurations (all randomness from an explicit random.Random)."""
from __future__ import annotations

import json
import random
from pathlib import Path

FIX = json.loads((Path(__file__).parent / "fixtures.json").read_text())
OPTIMIZERS = sorted(FIX)

# population is variable by design (C10 only demands 1 <= len <= N)
VARIABLE_SIZE = {"BeeColonyOptimization", "ForestOptimizationAlgorithm", "ImperialistCompetitiveOptimization"}
# search reads Agent.fitness / task direction (excluded from C12 by the property)
READS_FITNESS = {"AntLionOptimization"}
# NOT claimed structurally elitist (C17 does not apply); see DESIGN.md Appendix A for the one-line justifications
NON_ELITIST = {
    "BacterialForagingOptimization", "BattleRoyaleOptimization", "BeeColonyOptimization", "ChernobylDisasterOptimization",
    "CoralReefOptimization", "CoronavirusHerdImmunityOptimization", "CoyotesOptimization", "DwarfMongooseOptimization",
    "EarthwormsOptimization", "ElephantHerdOptimization", "FireHawkOptimization", "FireflySwarmOptimization",
    "FishSchoolSearchOptimization", "ForestOptimizationAlgorithm", "GeneticAlgorithmOptimization",
    "ImperialistCompetitiveOptimization", "ParticleSwarmOptimization", "WaterCycleOptimization",
}
# BrainStorm, ImprovedBrainStorm and HenryGasSolubility were listed while the pinned tree dropped the residual group at the
# first regroup; since the fix of _generate_group_population every replacement on their cycle path is a greedy comparison
# per slot (1 000 long runs incl. residual population sizes: no generation's best ever worsened) - claimed.

# conditionally elitist: listed above because ONE configuration shape breaks the argument; elitist otherwise
def elitist(opt: str, cfg: dict) -> bool:
    """is the run of `opt` under configuration dictionary `cfg` structurally elitist (C17 applies)?"""
    if opt == "ElephantHerdOptimization":
        # greedy clan update, then the WORST of every clan of n_individuals = population_size // n_clans elephants is replaced:
        # with at least two elephants per clan the worst is never the only holder of the best cost (the residual group is
        # left alone)
        try:
            return int(cfg["population_size"] / cfg["n_clans"]) >= 2
        except Exception:
            return False
    return opt not in NON_ELITIST


# optimizers whose step is "every agent is replaced in place by the winner of a greedy comparison with its own candidate"
# (refinement X.slotwise of spec/AlgoRel.tla; the source calls _greedy_select_agent and no surveyed run ever worsened a slot)
GREEDY_EACH: set[str] = {
    "AfricanVultureOptimization", "AquilaOptimization", "ArchimedeOptimization", "BatOptimization",
    "BrainStormOptimization", "BrownBearOptimization", "CamelCaravanOptimization", "CatSwarmOptimization",
    "CoatiOptimization", "DragonflyOptimization", "EgretSwarmOptimization", "ElectromagneticFieldOptimization",
    "FlowerPollinationAlgorithmOptimization", "ForensicBasedInvestigationOptimization", "FoxOptimization",
    "GainingSharingKnowledgeOptimization", "GerminalCenterOptimization", "GiantTrevallyOptimization",
    "GoldenJackalOptimization", "GrasshopperOptimization", "GreyWolfOptimization",
    "HenryGasSolubilityOptimization", "HungerGamesSearchOptimization", "ImprovedBrainStormOptimization",
    "LeviFlightJayaSwarmOptimization", "MarinePredatorsOptimization", "MothFlameOptimization",
    "MultiverseOptimization", "NuclearReactionOptimization", "OspreyOptimization",
    "PathfinderAlgorithmOptimization", "PelicanOptimization", "QleSineCosineAlgorithmOptimization",
    "RungeKuttaOptimization", "SalpSwarmOptimization", "SeagullOptimization", "ServalOptimization",
    "SiberianTigerOptimization", "SineCosineAlgorithmOptimization", "SpottedHyenaOptimization",
    "SuccessHistoryIntelligentOptimization", "SwarmHillClimbingOptimization", "TasmanianDevilOptimization",
    "TunaSwarmOptimization", "VirusColonySearchOptimization", "WalrusOptimization", "WarStrategyOptimization",
    "WhalesOptimization", "ZebraOptimization",
}

BOUND_REGIMES = ["unit", "asym", "tiny", "large", "zero_lb", "zero_ub", "negative", "mixed"]
FAMILIES = ["sphere", "linear", "rastrigin", "absneg", "step"]
ENCODINGS = ["cont", "contmulti", "multiobj", "disc", "discmulti", "bin", "mixed", "perm"]


def bounds(rng: random.Random, regime: str, dim: int):
    lbs, ubs = [], []
    for i in range(dim):
        if regime == "unit":
            lb, ub = -1.0, 1.0
        elif regime == "asym":
            lb = rng.choice([-10.0, -3.5, 2.0, -0.25])
            ub = lb + rng.choice([0.5, 4.0, 20.0])
        elif regime == "tiny":
            lb = rng.choice([-1e-3, 0.5, 1e-3])
            ub = lb + 1e-3
        elif regime == "large":
            lb, ub = -1e6 * (1 + i), 1e6 * (2 + i)
        elif regime == "zero_lb":
            lb, ub = 0.0, rng.choice([1.0, 5.0, 100.0])
        elif regime == "zero_ub":
            lb, ub = -rng.choice([1.0, 5.0, 100.0]), 0.0
        elif regime == "negative":
            lb = -rng.choice([10.0, 50.0])
            ub = lb / 2
        else:  # mixed: different scale per dimension
            lb = [-1.0, 0.0, -100.0, 3.0, -1e-2][i % 5]
            ub = lb + [2.0, 7.0, 150.0, 0.5, 2e-2][i % 5]
        lbs.append(lb)
        ubs.append(ub)
    return lbs, ubs


def task_desc(rng: random.Random, encoding: str | None = None, *, dim: int | None = None, minmax: str | None = None,
              regime: str | None = None, seed: int | None = None) -> dict:
    encoding = encoding or rng.choice(["contmulti", "contmulti", "cont", "multiobj"])
    dim = dim or rng.randint(2, 5)
    regime = regime or rng.choice(BOUND_REGIMES)
    minmax = minmax or rng.choice(["min", "max"])
    fam = rng.choice(FAMILIES)
    d = {"family": fam, "minmax": minmax, "seed": (0 if rng.random() < 0.06 else rng.randrange(2 ** 31)) if seed is None else seed, "nobj": 1, "weights": None,
         "encoding": encoding, "regime": regime}
    lbs, ubs = bounds(rng, regime, dim)
    if encoding == "cont":
        d["vars"] = [{"t": "cont", "lb": a, "ub": b} for a, b in zip(lbs, ubs)]
    elif encoding == "contmulti":
        d["vars"] = [{"t": "contmulti", "lbs": lbs, "ubs": ubs}]
    elif encoding == "multiobj":
        d["vars"] = [{"t": "multiobj", "lbs": lbs, "ubs": ubs}]
        d["nobj"] = rng.choice([2, 3])
        d["weights"] = [rng.choice([0.0, 0.5, 1.0, 2.0]) for _ in range(d["nobj"])]
        if not any(d["weights"]):
            d["weights"][0] = 1.0
    elif encoding == "disc":
        d["vars"] = [{"t": "disc", "n": rng.randint(2, 6)} for _ in range(dim)]
    elif encoding == "discmulti":
        d["vars"] = [{"t": "discmulti", "ns": [rng.randint(2, 6) for _ in range(dim)]}]
    elif encoding == "bin":
        d["vars"] = [{"t": "bin", "n": dim + 2}]
    elif encoding == "mixed":
        d["vars"] = [{"t": "contmulti", "lbs": lbs[:2], "ubs": ubs[:2]}, {"t": "disc", "n": rng.randint(2, 5)},
                     {"t": "bin", "n": 2}, {"t": "cont", "lb": lbs[0], "ub": ubs[0]}]
    elif encoding == "perm":
        d["vars"] = [{"t": "perm", "n": rng.randint(4, 7)}]
    else:
        raise ValueError(encoding)
    ncoord = sum(len(v.get("lbs", v.get("ns", [0]))) if v["t"] in ("contmulti", "multiobj", "discmulti") else (v["n"] if v["t"] == "bin" else 1)
                 for v in d["vars"])
    d["dim"] = ncoord
    # shift inside the box (or near a bound), coefficients of both signs for 'linear'
    d["shift"] = []
    k = 0
    for v in d["vars"]:
        if v["t"] == "cont":
            pairs = [(v["lb"], v["ub"])]
        elif v["t"] in ("contmulti", "multiobj"):
            pairs = list(zip(v["lbs"], v["ubs"]))
        elif v["t"] == "disc":
            pairs = [(0, v["n"] - 1)]
        elif v["t"] == "discmulti":
            pairs = [(0, n - 1) for n in v["ns"]]
        elif v["t"] == "bin":
            pairs = [(0, 1)] * v["n"]
        else:
            pairs = [(0, 0)]
        for a, b in pairs:
            d["shift"].append(rng.choice([a, b, (a + b) / 2, a + 0.25 * (b - a)]))
            k += 1
    d["coef"] = [rng.choice([1.0, 0.5, 2.0, -1.0 if fam == "linear" else 1.5]) for _ in range(ncoord)]
    return d


def jitter(rng: random.Random, name: str, value):
    """perturb a numeric algorithm parameter (kept only if the config class accepts the result)"""
    if isinstance(value, bool) or value is None or isinstance(value, (str, dict)):
        return value
    if isinstance(value, int):
        if 0 <= value <= 3 and name not in ("population_size", "max_cycles"):
            return rng.choice([0, 1, 2, 3, 4])        # small integers are usually strategy selectors / counts: try them all
        return max(1, value + rng.choice([-1, 0, 0, 1, 2]))
    if isinstance(value, float):
        return value * rng.choice([0.5, 0.9, 1.0, 1.0, 1.1, 1.5])
    if isinstance(value, list):
        out = [jitter(rng, name, v) for v in value]
        if len(out) == 2 and all(isinstance(v, (int, float)) and not isinstance(v, bool) for v in out):
            r = rng.random()     # ranges given in descending order are valid unless the config model says otherwise
            if r < 0.25:
                out.reverse()
            elif r < 0.5:
                out = [out[1] + abs(out[1] - out[0]), out[1]]
        return out
    return value


_ACC: dict = {}


def _acceptor(opt: str):
    """valid configuration <=> the library's own config model accepts it"""
    if opt not in _ACC:
        import os, sys
        sys.path.insert(0, os.environ.get("VERIF_REPO", "/repo"))
        import pyvolutionary
        cls = getattr(pyvolutionary, FIX[opt]["config_class"])

        def ok(d, cls=cls):
            try:
                cls(**d)
                return True
            except Exception:
                return False
        _ACC[opt] = ok
    return _ACC[opt]


def config_dict(rng: random.Random, opt: str, *, scale: float = 1.0, max_cycles: int | None = None,
                stop: str = "cycles", jit: bool = False, plus: int = 0) -> dict:
    base = dict(FIX[opt]["config"])
    n0 = base["population_size"]
    if jit:
        ok = _acceptor(opt)
        for k, v in list(base.items()):
            if k not in ("population_size", "max_cycles", "fitness_error", "early_stopping"):
                cand = {**base, k: jitter(rng, k, v)}
                if ok(cand):          # field by field: a jittered value is kept only if the config model accepts it
                    base = cand
    base["population_size"] = int(round(n0 * scale)) + plus      # plus: sizes that are not multiples of anything
    base["max_cycles"] = max_cycles if max_cycles is not None else rng.choice([1, 2, 3, 5])
    base["early_stopping"] = None
    base["fitness_error"] = None
    if stop == "fe":
        base["fitness_error"] = rng.choice([0.5, 0.9, 2.0, 10.0])
    elif stop == "es":
        base["early_stopping"] = {"patience": rng.choice([1, 2, 3, 5, None]), "min_delta": rng.choice([1e-3, 0.1, 10.0, None])}
    elif stop == "both":
        base["fitness_error"] = rng.choice([0.5, 2.0])
        base["early_stopping"] = {"patience": rng.choice([1, 2]), "min_delta": rng.choice([0.1, 10.0])}
    return base


def precondition(opt: str, cfg: dict, desc: dict) -> str | None:
    """documented relations between a configuration and a task that make the pair invalid input (not a crash finding)"""
    if opt == "ForestOptimizationAlgorithm":
        if max(cfg.get("global_seeding_changes", 0), cfg.get("local_seeding_changes", 0)) > desc["dim"]:
            return "precondition: Forest seeding changes must not exceed the task dimension"
    return None
