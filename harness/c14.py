"""C14 — a task's search-space description is consistent with its variables (shares machinery with C13)."""
from .c13 import main_for, RULE  # noqa: F401


def main(chk):
    main_for(chk, "C14")
