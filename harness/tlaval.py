"""Parser for TLA+ values as TLC prints them (state dumps, -simulate trace files, PrintT output).

Supported: integers, strings, TRUE/FALSE, tuples <<..>>, sets {..}, records [a |-> v, ..],
functions (k :> v @@ ..), model values / bare identifiers.  Tuples -> list, sets -> frozenset when
hashable else list, records -> dict, functions -> dict.
"""
from __future__ import annotations

import re

_TOK = re.compile(r'\s*(<<|>>|\|->|:>|@@|\.\.|[\[\]{}(),]|-?\d+|"(?:[^"\\]|\\.)*"|[A-Za-z_][A-Za-z0-9_]*)')


class _P:
    def __init__(self, text: str):
        self.toks = _TOK.findall(text)
        self.i = 0

    def peek(self):
        return self.toks[self.i] if self.i < len(self.toks) else None

    def eat(self, t=None):
        tok = self.peek()
        if t is not None and tok != t:
            raise ValueError(f"expected {t!r}, found {tok!r} at token {self.i}")
        self.i += 1
        return tok

    def value(self):
        t = self.peek()
        if t == "<<":
            self.eat()
            out = []
            while self.peek() != ">>":
                out.append(self.value())
                if self.peek() == ",":
                    self.eat()
            self.eat(">>")
            return out
        if t == "{":
            self.eat()
            out = []
            while self.peek() != "}":
                out.append(self.value())
                if self.peek() == ",":
                    self.eat()
            self.eat("}")
            try:
                return frozenset(_freeze(x) for x in out)
            except TypeError:
                return out
        if t == "[":
            self.eat()
            out = {}
            while self.peek() != "]":
                k = self.eat()
                self.eat("|->")
                out[k] = self.value()
                if self.peek() == ",":
                    self.eat()
            self.eat("]")
            return out
        if t == "(":
            self.eat()
            out = {}
            while self.peek() != ")":
                k = self.value()
                self.eat(":>")
                out[_freeze(k)] = self.value()
                if self.peek() == "@@":
                    self.eat()
            self.eat(")")
            return out
        self.eat()
        if t is None:
            raise ValueError("unexpected end of value")
        if t.startswith('"'):
            return bytes(t[1:-1], "utf-8").decode("unicode_escape")
        if re.fullmatch(r"-?\d+", t):
            if self.peek() == "..":           # an interval set a..b
                self.eat()
                hi = int(self.eat())
                return frozenset(range(int(t), hi + 1))
            return int(t)
        if t == "TRUE":
            return True
        if t == "FALSE":
            return False
        return t


def _freeze(x):
    if isinstance(x, list):
        return tuple(_freeze(y) for y in x)
    if isinstance(x, dict):
        return tuple(sorted((k, _freeze(v)) for k, v in x.items()))
    return x


def parse(text: str):
    p = _P(text)
    v = p.value()
    if p.peek() is not None:
        raise ValueError(f"trailing tokens after value: {p.toks[p.i:p.i+5]}")
    return v


_STATE = re.compile(r"^State \d+:.*$", re.M)


def parse_dump(path) -> list[dict]:
    """States of a `tlc -dump` file: list of {var: value}."""
    text = open(path).read()
    out = []
    for blk in _STATE.split(text)[1:]:
        out.append(parse_state(blk))
    return out


def parse_state(blk: str) -> dict:
    """'/\\ a = v\\n/\\ b = w' or 'a = v' -> {a: v, b: w}"""
    st = {}
    parts = re.split(r"^(?:/\\ )?([A-Za-z_][A-Za-z0-9_]*) = ", blk.strip(), flags=re.M)
    # parts = ['', name1, val1, name2, val2 ...]
    for k in range(1, len(parts) - 1, 2):
        st[parts[k]] = parse(parts[k + 1].strip())
    return st
