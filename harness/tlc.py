"""Thin, careful wrapper around TLC (tla2tools 1.8) used by every check.

* every invocation gets its own metadir under /verif/.work (never /tmp),
* values travel through files named in environment variables (IOEnv.<NAME> inside the spec),
* the outcome is parsed into a TLCResult; anything that is not clearly "completed, no error" or a clean
  invariant/property violation is a *machinery failure* (exit 2 in the CLI), never a verdict.
"""
from __future__ import annotations

import json
import os
import re
import shutil
import subprocess
import time
import uuid
from dataclasses import dataclass, field
from pathlib import Path

ROOT = Path(__file__).resolve().parent.parent
SPEC = ROOT / "spec"
WORK = Path(os.environ.get("VERIF_WORK", ROOT / ".work"))
JAR = "/opt/veriftools/tla/tla2tools.jar:/opt/veriftools/tla/CommunityModules-deps.jar"


COVERAGE = False      # thorough tier: run the exhaustive models with -coverage 1 and report per-action counts (vacuity evidence)


class MachineryError(RuntimeError):
    """TLC could not give a verdict (parse error, crash, time-out, unexpected output)."""


@dataclass
class TLCResult:
    ok: bool                      # completed with no error
    violated: list[str]           # names of violated invariants / properties
    states: int = 0               # states generated
    distinct: int = 0
    depth: int = 0
    wall_s: float = 0.0
    out: str = ""
    cmd: str = ""
    prints: list[str] = field(default_factory=list)
    coverage: dict[str, int] = field(default_factory=dict)   # action name -> distinct states (with -coverage)

    @property
    def transitions(self) -> int:
        # TLC reports generated states; every generated non-initial state is one explored transition
        return max(self.states - 0, 0)


def workdir(tag: str) -> Path:
    d = WORK / "tlc" / f"{tag}-{os.getpid()}-{uuid.uuid4().hex[:8]}"
    d.mkdir(parents=True, exist_ok=True)
    return d


_STATES = re.compile(r"(\d+) states generated, (\d+) distinct states found")
_DEPTH = re.compile(r"The depth of the complete state graph search is (\d+)")
_INV = re.compile(r"Error: Invariant (\S+) is violated")
_PROP = re.compile(r"Error: (?:Action|Temporal) propert(?:y|ies) (\S+)? ?(?:is|were) violated")
_COV = re.compile(r"^<(\w+) line \d+, col \d+ to line \d+, col \d+ of module (\w+)>: (\d+):(\d+)", re.M)


def run(spec: str, cfg: str, *, env: dict[str, str] | None = None, workers: int | str = "auto",
        timeout: int = 1800, extra: list[str] | None = None, tag: str | None = None,
        keep: bool = False, heap: str = "4g", deque: bool = False, expect_violation: bool = False) -> TLCResult:
    """Run TLC on spec/<spec>.tla with spec/<cfg>; raise MachineryError unless the outcome is a verdict."""
    wd = workdir(tag or cfg.replace(".cfg", ""))
    e = dict(os.environ)
    e.update(env or {})
    opts = ["-XX:+UseParallelGC", f"-Xmx{heap}"]
    if deque:
        opts.append("-Dtlc2.tool.queue.IStateQueue=StateDeque")
    cov = ["-coverage", "1"] if (COVERAGE and "_mc" in cfg and "-simulate" not in (extra or [])) else []
    cmd = ["java", *opts, "-cp", JAR, "tlc2.TLC", "-workers", str(workers), "-metadir", str(wd / "meta"),
           "-noGenerateSpecTE", "-config", cfg, *cov, *(extra or []), spec]
    t0 = time.time()
    try:
        p = subprocess.run(cmd, cwd=SPEC, env=e, capture_output=True, text=True, timeout=timeout)
    except subprocess.TimeoutExpired as ex:
        shutil.rmtree(wd, ignore_errors=True)
        raise MachineryError(f"TLC timed out after {timeout}s: {' '.join(cmd)}") from ex
    wall = time.time() - t0
    out = p.stdout + p.stderr
    res = TLCResult(ok=False, violated=[], wall_s=wall, out=out, cmd=" ".join(cmd[5:]))
    m = None
    for m in _STATES.finditer(out):
        pass
    if m:
        res.states, res.distinct = int(m.group(1)), int(m.group(2))
    m = _DEPTH.search(out)
    if m:
        res.depth = int(m.group(1))
    res.violated = _INV.findall(out)
    if "Temporal properties were violated" in out or "Action property" in out and "violated" in out:
        for mm in re.finditer(r"Error: Action property (\S+) is violated", out):
            res.violated.append(mm.group(1))
        if "Temporal properties were violated" in out:
            res.violated.append("<temporal>")
    res.prints = [ln for ln in out.splitlines() if ln.startswith("<<") or ln.startswith('"')]
    for mm in _COV.finditer(out):
        res.coverage[mm.group(1)] = res.coverage.get(mm.group(1), 0) + int(mm.group(4))
    completed = "Model checking completed. No error has been found." in out
    simulated = "Progress:" in out or "The number of states generated:" in out
    res.ok = (completed or (simulated and p.returncode == 0)) and not res.violated and "Error:" not in out
    if not keep:
        shutil.rmtree(wd, ignore_errors=True)
    if res.ok:
        return res
    if res.violated and ("is violated" in out or "were violated" in out):
        return res
    if "Assumption" in out and "is false" in out:
        res.violated.append("<assumption>")
        return res
    if "Deadlock reached" in out:
        res.violated.append("<deadlock>")
        return res
    tail = "\n".join(out.splitlines()[-40:])
    raise MachineryError(f"TLC gave no verdict (rc={p.returncode}) for {spec} / {cfg}:\n{tail}")


def sany(spec: str) -> None:
    p = subprocess.run(["java", "-cp", JAR, "tla2sany.SANY", spec], cwd=SPEC, capture_output=True, text=True)
    if p.returncode != 0 or "Semantic errors" in p.stdout or "Parse Error" in p.stdout or "Fatal" in p.stdout:
        raise MachineryError(f"SANY rejected {spec}:\n{p.stdout[-3000:]}")


def write_ndjson(path: Path, records) -> int:
    n = 0
    with open(path, "w") as f:
        for r in records:
            f.write(json.dumps(r, separators=(",", ":")))
            f.write("\n")
            n += 1
    return n


def read_ndjson(path: Path) -> list:
    with open(path) as f:
        return [json.loads(ln) for ln in f if ln.strip()]
