"""C11 — thread and process modes change scheduling, not guarantees.

(M) Pool.tla: every interleaving of Submit / Start / Finish / Gather for <= 4(5) items and 3 workers: ExactlyOnce,
    NeverTwice, DistinctDraws, ScheduleIndependentSet, liveness Closes; deviations: forked RNG copies, a dropped and a
    duplicated future.
(G) every gathering order TLC reached (2..4 items) is FORCED on the real _generate_agents and
    _greedy_select_population through a controllable executor substituted in the harness process.
(V) real thread and process pools with injected per-evaluation delays and 1..16 workers: multiset of evaluations vs
    agents handed back, pairwise distinct random points; plus the TracePop verdicts of every pooled-mode corpus run.
"""
from __future__ import annotations

import concurrent.futures as cf
import contextlib
import io
import json
import os
import random
import tempfile
import threading
import time

from . import tlc, tlaval, gen, corpus, popchecks
from .common import Check, WORK
from .judge import judge
from .corpus import _key

RULE = ("orders = every gathering order of Pool.tla's closed states (2..4 items) forced on the real code; pools = real "
        "thread/process executors x workers in {1,2,3,4,8,16} x item counts 1..12 with seeded injected delays; "
        "distinct = (kind, mode, workers, item count, order)")


class CtlFuture(cf.Future):
    def __init__(self, consumed: threading.Event):
        super().__init__()
        self._consumed = consumed

    def result(self, timeout=None):
        try:
            return super().result(timeout)
        finally:
            self._consumed.set()


class CtlExecutor(cf.Executor):
    """completes the submitted calls one at a time in a prescribed order (1-based submission indexes); the next
    future is completed only after the result of the previous one has been consumed"""

    def __init__(self, order: list[int]):
        self.order = order
        self.jobs = []
        self.lock = threading.Lock()
        self.thread = None
        self.item_of = {}          # id(result object) -> submission index

    def submit(self, fn, *args, **kwargs):
        ev = threading.Event()
        fut = CtlFuture(ev)
        with self.lock:
            self.jobs.append((fut, ev, fn, args, kwargs))
            if len(self.jobs) == len(self.order) and self.thread is None:
                self.thread = threading.Thread(target=self._drive, daemon=True)
                self.thread.start()
            elif len(self.jobs) == 1:
                # watchdog: code under test that submits a different number of jobs must not hang the check
                threading.Timer(1.5, self._late_start).start()
        return fut

    def _late_start(self):
        with self.lock:
            if self.thread is None:
                n = len(self.jobs)
                self.order = [t for t in self.order if t <= n] + [t for t in range(1, n + 1) if t not in self.order]
                self.thread = threading.Thread(target=self._drive, daemon=True)
                self.thread.start()

    def _drive(self):
        done = set()

        def run(t):
            fut, ev, fn, args, kwargs = self.jobs[t - 1]
            done.add(t)
            try:
                res = fn(*args, **kwargs)
                self.item_of[id(res)] = t
                self.keep = getattr(self, "keep", []) + [res]
                fut.set_result(res)
            except BaseException as ex:  # noqa
                fut.set_exception(ex)
            ev.wait(10)
        for t in list(self.order):
            if t <= len(self.jobs):
                run(t)
        # code under test may submit more (or fewer) jobs than the prescribed order has entries: never leave a future
        # pending - run the rest in submission order until the executor is shut down
        import time as _t
        while not getattr(self, "_closed", False):
            rest = [t for t in range(1, len(self.jobs) + 1) if t not in done]
            if rest:
                run(rest[0])
            else:
                _t.sleep(0.01)

    def shutdown(self, wait=True, **kw):
        self._closed = True
        if self.thread is not None and wait:
            self.thread.join(20)


import sys as _sys
_sys.path.insert(0, os.environ.get("VERIF_REPO", "/repo"))
import pyvolutionary.abstract as _A  # noqa: E402
from pyvolutionary.models import BaseOptimizationConfig as _Cfg  # noqa: E402


class PoolProbe(_A.OptimizationAbstract):
    """module level: must pickle into the workers of a real process pool"""

    def optimization_step(self):
        pass

    def set_config_parameters(self, parameters):
        pass


def probe_env():
    from . import tasks as T
    return T, _A, PoolProbe, _Cfg


DESC = {"vars": [{"t": "contmulti", "lbs": [-2.0, 0.0, -1.0], "ubs": [2.0, 5.0, 1.0]}], "family": "sphere", "shift": [0.0, 1.0, 0.5],
        "coef": [1.0, 1.0, 2.0], "nobj": 1, "weights": None, "minmax": "min", "seed": None, "encoding": "contmulti", "dim": 3}
GREEDY_CASES = [([3, 1, 2, 2], [2, 2, 0, 5]), ([1, 1, 1], [1, 0, 2]), ([5, 4], [4, 5]), ([0, 0, 7, 7], [7, 7, 0, 0]), ([2, 9, 4], [3, 3, 3])]


def forced(orders: dict[int, list[list[int]]]) -> list[dict]:
    """force every order on the real primitives through the controllable executor"""
    import numpy as np
    T, A, PoolProbe, Cfg = probe_env()
    from pyvolutionary.enums import ModeSolver
    from pyvolutionary.models import Agent
    recs = []
    real = A.get_pool_executor
    try:
        for K, os_ in orders.items():
            for order in os_:
                ex = CtlExecutor(order)
                A.get_pool_executor = lambda mode, n, ex=ex: ex
                o = PoolProbe(Cfg(population_size=K, max_cycles=1))
                o._mode, o._workers = ModeSolver.THREAD, 3
                o._task = T.build_task(DESC)
                T.REC.reset()
                np.random.seed(K * 1000 + len(recs))
                pop = o._generate_agents(K)
                recs.append({"kind": "order", "K": K, "order": order, "gathered": [ex.item_of.get(id(a), 0) for a in pop],
                             "positions": [_key(a.position) for a in pop]})
                for pc, nc in GREEDY_CASES:
                    if len(pc) != K:
                        continue
                    ex = CtlExecutor(order)
                    A.get_pool_executor = lambda mode, n, ex=ex: ex
                    o = PoolProbe(Cfg(population_size=K, max_cycles=1))
                    o._mode, o._workers = ModeSolver.THREAD, 3
                    o._population = [Agent(position=[0, k + 1], cost=float(c), fitness=0.0) for k, c in enumerate(pc)]
                    new = [Agent(position=[1, k + 1], cost=float(c), fitness=0.0) for k, c in enumerate(nc)]
                    o._greedy_select_population(new)
                    recs.append({"kind": "greedy", "K": K, "order": order, "pop": pc, "new": nc,
                                 "out": [[int(a.position[0]), int(a.position[1])] for a in o._population]})
    finally:
        A.get_pool_executor = real
    ids = {}
    for r in recs:
        if r["kind"] == "order":
            r["positions"] = [ids.setdefault(p, len(ids) + 1) for p in r["positions"]]
    return recs


def _delay(x):
    time.sleep(((hash(repr(x)) % 11) / 11.0) * 0.003)


def _slow_delay(x):
    time.sleep(0.3)          # batches that take longer than a second (gathering loops with time slices)


def real_pool_case(args):
    mode, workers, K, seed = args[:4]
    slow = len(args) > 4 and args[4]
    import numpy as np
    T, A, PoolProbe, Cfg = probe_env()
    from pyvolutionary.enums import ModeSolver
    o = PoolProbe(Cfg(population_size=K, max_cycles=1))
    o._mode, o._workers = ModeSolver(mode), workers
    o._task = T.build_task(DESC)
    path = None
    if mode == "process":
        (WORK / "tmp").mkdir(parents=True, exist_ok=True)
        fd, path = tempfile.mkstemp(prefix="pool-", suffix=".ndjson", dir=str(WORK / "tmp"))
        os.close(fd)
    T.REC.reset(path)
    T.REC.delay = _slow_delay if slow else _delay
    np.random.seed(seed)
    try:
        pop = o._generate_agents(K)
        err = ""
    except Exception as ex:
        pop, err = [], type(ex).__name__
    T.REC.delay = None
    calls = T.REC.load()
    bypid = T.load_by_pid(path) if path else {}
    if path:
        with contextlib.suppress(OSError):
            os.unlink(path)
    ids = {}
    ev = [ids.setdefault(_key(c[1]), len(ids) + 1) for c in calls]
    ag = [ids.setdefault(_key(a.position), len(ids) + 1) for a in pop]
    rec = {"kind": "pool", "mode": mode, "workers": workers, "K": K, "evals": ev, "agents": ag, "error": err}
    if bypid:
        # items are numbered by the order in which the parent gathered them; a worker's log refers to the item whose
        # agent has the position it evaluated (duplicates are consumed in order; an evaluation nobody received is item K+1)
        pool = {}
        for k, a in enumerate(pop):
            pool.setdefault(_key(a.position), []).append(k + 1)
        wl = []
        for pid_, xs in sorted(bypid.items()):
            row = []
            for x in xs:
                lst = pool.get(_key(x), [])
                row.append(lst.pop(0) if lst else K + 1)
            wl.append(row)
        rec["il"] = {"workers": wl, "gathered": list(range(1, len(pop) + 1))}
    return rec


def interleavings(chk: Check, recs: list[dict]):
    """TracePoolIL.tla: per-process logs of real process pools; TLC chooses the interleaving (accepted iff one exists)"""
    if not recs:
        return
    d = tlc.workdir("poolil")

    def one(k):
        r = recs[k]
        il = r["il"]
        W = max(1, len(il["workers"]))
        tf, cfgf = d / f"t{k}.json", d / f"t{k}.cfg"
        tf.write_text(json.dumps(il))
        cfgf.write_text(f"SPECIFICATION TSpec\nCONSTANTS\n  K = {r['K']}\n  W = {W}\n  Mode = \"reseed\"\n  Dev = \"none\"\n"
                        "INVARIANT ExactlyOnce\nINVARIANT NeverTwice\nINVARIANT DistinctDraws\nPOSTCONDITION Accepted\nCHECK_DEADLOCK FALSE\n")
        res = tlc.run("TracePoolIL.tla", str(cfgf), env={"TRACE_FILE": str(tf)}, workers=1, tag=f"poolil{k}", timeout=600)
        return res
    import concurrent.futures as _cf
    with _cf.ThreadPoolExecutor(6) as ex:
        futs = {k: ex.submit(one, k) for k in range(len(recs))}
    accepted = 0
    for k, f in futs.items():
        try:
            res = f.result()
            chk.states += res.states
            chk.transitions += res.states
            accepted += 1
        except tlc.MachineryError as e:
            msg = str(e)
            if "Postcondition Accepted" in msg and "is false" in msg:
                chk.violation("C11.interleaving", {"kind": "pool", "mode": "process"},
                              {"record": recs[k], "why": "no interleaving of the per-process logs is a behaviour of Pool.tla"})
            else:
                chk.machinery.append(msg[:1500])
    chk.traces += len(recs)
    chk.extra["process_pool_traces_with_tlc_chosen_interleaving"] = {"traces": len(recs), "accepted": accepted}
    # canary: a result gathered twice cannot be explained by any interleaving
    c = json.loads(json.dumps(recs[0]))
    c["il"]["gathered"][-1] = c["il"]["gathered"][0]
    tf, cfgf = d / "canary.json", d / "canary.cfg"
    tf.write_text(json.dumps(c["il"]))
    cfgf.write_text((d / "t0.cfg").read_text())
    try:
        tlc.run("TracePoolIL.tla", str(cfgf), env={"TRACE_FILE": str(tf)}, workers=1, tag="poolil-canary", timeout=600)
        chk.canary("C11.interleaving#dup", False, "a result gathered twice was explained by some interleaving")
    except tlc.MachineryError as e:
        chk.canary("C11.interleaving#dup", "Postcondition Accepted" in str(e), "a result gathered twice")
    import shutil
    shutil.rmtree(d, ignore_errors=True)


def main(chk: Check):
    thorough = chk.tier == "thorough"
    orders = {}
    for K, cfg in ((2, "Pool_gen2.cfg"), (3, "Pool_gen3.cfg"), (4, "Pool_mc_thread.cfg")):
        dump = WORK / f"pool-{os.getpid()}-{K}.dump"
        res = tlc.run("Pool.tla", cfg, workers=8, timeout=900, extra=["-dump", str(dump)])
        chk.model(cfg, res, note="ExactlyOnce, NeverTwice, DistinctDraws, ScheduleIndependentSet, Closes; all interleavings")
        sts = tlaval.parse_dump(dump)
        dump.unlink(missing_ok=True)
        orders[K] = sorted({tuple(s["gathered"]) for s in sts if s["pc"] == "closed"})
        orders[K] = [list(o) for o in orders[K]]
    chk.model("Pool_mc_reseed.cfg", tlc.run("Pool.tla", "Pool_mc_reseed.cfg", workers=8, timeout=900), note="process mode, per-item seeds")
    if thorough:
        chk.model("Pool_mc_thorough.cfg", tlc.run("Pool.tla", "Pool_mc_thorough.cfg", workers=16, timeout=1800), note="5 items, 3 workers")
    for cfg, law in (("Pool_fork.cfg", "DistinctDraws"), ("Pool_dropfuture.cfg", "ExactlyOnce"), ("Pool_dupfuture.cfg", "NeverTwice")):
        chk.model(cfg, tlc.run("Pool.tla", cfg, workers=4, timeout=600), expect=law, note="named deviation")
    records = forced(orders)
    rng = random.Random(chk.seed)
    cases = []
    for mode in ("thread", "process"):
        for workers in (1, 2, 3, 4, 8, 16):
            for K in ([1, 2, 3, 5, 8, 12] if not thorough else list(range(1, 13))):
                for _ in range(3 if thorough else 1):
                    cases.append((mode, workers, K, rng.randrange(2 ** 31)))
    cases += [("thread", 2, 9, 5, True), ("process", 2, 9, 6, True)]
    with cf.ProcessPoolExecutor(6) as ex:
        records += list(ex.map(real_pool_case, cases))
    for k, r in enumerate(records):
        r["id"] = k + 1
    bad, st, consumed = judge("TracePool.tla", "TracePool.cfg", records, "c11", jobs=4)
    chk.states += st
    chk.transitions += st
    chk.traces = consumed
    chk.evaluations = len(records)
    byid = {r["id"]: r for r in records}
    for rid, clause in bad:
        r = byid[rid]
        chk.violation(clause, {"kind": r["kind"], "mode": r.get("mode", "forced-order")}, {"record": r})
    for r in records:
        if r.get("error"):
            chk.violation("C11.crash", {"kind": r["kind"], "mode": r["mode"], "exception": r["error"]}, {"record": r})
        chk.distinct.add((r["kind"], r.get("mode", "ctl"), r.get("workers", 0), r["K"], tuple(r.get("order", []))))
    chk.sample(records[0])
    chk.sample(records[-1])
    chk.extra["forced_orders"] = {str(k): len(v) for k, v in orders.items()}
    interleavings(chk, [r for r in records if r.get("il") and 2 <= r["K"] <= 8][: (40 if thorough else 12)])
    # guarantees of whole runs in pooled modes (TracePop verdicts of the corpus)
    v = corpus.corpus(chk.tier, chk.seed)
    recs = {r["id"]: r for r in v["records"]}
    pooled = [r for r in v["records"] if r["mode"] != "serial"]
    serial_fail = {(recs[i]["opt"], cl) for i, cl in v["bad"] if recs[i]["mode"] == "serial"}
    chk.traces += len(pooled)
    chk.states += sum(r.get("n_snaps", 0) + 2 for r in pooled)
    for i, cl in v["bad"]:
        r = recs[i]
        if r["mode"] == "serial" or cl.split(".")[0] not in ("C01", "C02", "C03", "C10"):
            continue
        if (r["opt"], cl) in serial_fail:
            continue        # not a scheduling matter: reported by the property's own check
        chk.violation("C11.guarantee", {"optimizer": r["opt"], "inner": cl, "mode": r["mode"]}, {"run": r["spec"]})
    chk.extra["pooled_corpus_runs"] = len(pooled)
    # canaries
    clean = [r for r in records if r["id"] not in {i for i, _ in bad}]
    can, want = [], {}
    for r in clean:
        c = json.loads(json.dumps(r))
        if r["kind"] == "pool" and r["K"] >= 3 and sum(1 for w in want.values() if w == "C11.once") < 2:
            c["agents"] = c["agents"][:-1]
            cl = "C11.once"
        elif r["kind"] == "pool" and r["K"] >= 3 and sum(1 for w in want.values() if w == "C11.distinct") < 2:
            c["agents"][1] = c["agents"][0]; c["evals"] = list(c["agents"])
            cl = "C11.distinct"
        elif r["kind"] == "order" and r["K"] >= 3 and sum(1 for w in want.values() if w == "C11.once#o") < 2:
            c["gathered"][0] = c["gathered"][1]
            cl = "C11.once"
            want[len(can) + 1] = "C11.once#o"
        else:
            continue
        c["id"] = len(can) + 1
        can.append(c)
        want.setdefault(c["id"], cl)
    cbad, _, _ = judge("TracePool.tla", "TracePool.cfg", can, "c11-canary", jobs=1)
    for i, cl in want.items():
        cl2 = cl.split("#")[0]
        chk.canary(f"{cl2}#{i}", (i, cl2) in set(cbad), "lost / duplicated result in a real pool record")
    chk.assumptions += ["the controllable executor replaces pyvolutionary.abstract.get_pool_executor in the harness process only",
                        "real pools are perturbed by seeded per-evaluation delays; the OS scheduler is not controlled",
                        "process-mode evaluations are logged per process (O_APPEND file, per-process sequence numbers)"]
