"""(G) for the run machine: behaviours of PopMachine.tla produced by TLC (-simulate; the history variable `act` carries
the step kinds and raw candidates) are stepped through the REAL optimize() loop with a scripted optimizer that implements
each step kind with the library's own primitives (_init_agent, _greedy_select_agent, _greedy_select_population,
_extend_and_trim_population, _replace_and_trim_population, sort_and_trim).  After the run the model's state (snapshots,
recorded generations, set of objective arguments, best_solution) is compared with what the code produced - exact values:
the model's positions 1..3 are the real points 1.0, 2.0, 3.0 of a 1-D task with bounds [1, 3]; raw candidates 4 / 5 / 6
are 0.0 (below), 4.0 (above) and NaN; the objective table FT is the task's objective."""
from __future__ import annotations

import contextlib
import io
import math
import os
import re
import shutil
import subprocess
import sys
from collections import Counter

from . import tlc, tlaval
from .common import Check

sys.path.insert(0, os.environ.get("VERIF_REPO", "/repo"))
from pyvolutionary.abstract import OptimizationAbstract  # noqa: E402
from pyvolutionary.helpers import sort_and_trim  # noqa: E402
from pyvolutionary.models import BaseOptimizationConfig, ContinuousVariable, Task  # noqa: E402

RAW = {1: 1.0, 2: 2.0, 3: 3.0, 4: 0.0, 5: 4.0, 6: math.nan}
FTS = {"FT1": [2, -1, 2], "FT2": [0, 3, -2], "FT3": [1000, -1, -1000]}
INFC = 1000        # the model's code of an infinite objective value


def val(code) -> float:
    """model cost code -> the real value"""
    c = float(code)
    return math.inf if c == INFC else -math.inf if c == -INFC else c


class KindTask(Task):
    def objective_function(self, x):
        self.data["calls"].append(x[0])
        v = x[0]
        if isinstance(v, float) and v in (1.0, 2.0, 3.0):
            return val(self.data["ft"][int(v) - 1])
        return 0.0                      # outside the space: the model's F is 0 there too


class KindOpt(OptimizationAbstract):
    """optimization_step = the scripted step kind, built from the library's own primitives"""

    def set_config_parameters(self, parameters):
        self._config = BaseOptimizationConfig(**parameters)

    def _init_population(self):
        kind, rs = self._script[0]
        self._population = [self._init_agent([RAW[r]]) for r in rs]
        self._k = 0
        self._snaps = [[(a.position[0], a.cost) for a in self._population]]

    def optimization_step(self):
        self._k += 1
        kind, rs = self._script[self._k]
        new = [self._init_agent([RAW[r]]) for r in rs]
        if kind == "greedy_each":
            self._population = [self._greedy_select_agent(a, b) for a, b in zip(self._population, new)]
        elif kind == "greedy_pop":
            self._greedy_select_population(new)
        elif kind == "extend_trim":
            self._extend_and_trim_population(new)
        elif kind == "replace_all":
            self._population = new
        elif kind == "replace_trim":
            self._replace_and_trim_population(new)
        elif kind == "shrink":
            self._population = sort_and_trim(self._population, len(self._population) - 1)
        else:
            raise ValueError(kind)
        self._snaps.append([(a.position[0], a.cost) for a in self._population])


def behaviours(cfg: str, num: int, seed: int, depth: int = 16) -> list[dict]:
    """final states (pc in check/return/done) of `num` random behaviours of PopMachine"""
    d = tlc.workdir("popsim")
    cmd = ["java", "-XX:+UseParallelGC", "-cp", tlc.JAR, "tlc2.TLC", "-simulate", f"file={d}/tr,num={num}", "-depth", str(depth),
           "-workers", "1", "-seed", str(seed), "-metadir", str(d / "meta"), "-noGenerateSpecTE", "-config", cfg, "PopMachine.tla"]
    p = subprocess.run(cmd, cwd=tlc.SPEC, capture_output=True, text=True, timeout=900)
    out = []
    states = 0
    m = re.search(r"The number of states generated: (\d+)", p.stdout)
    if m:
        states = int(m.group(1))
    for f in sorted(d.glob("tr_*")):
        txt = f.read_text()
        blocks = re.split(r"^STATE_\d+ ==\s*$", txt, flags=re.M)[1:]
        last = None
        for b in blocks:
            b = b.split("\n\n\n")[0]
            b = re.sub(r"^\\\*.*$", "", b, flags=re.M)
            b = b.replace("=====", "")
            st = tlaval.parse_state(b)
            if st.get("pc") in ("check", "return", "done"):
                last = st
        if last is not None:
            out.append(last)
    shutil.rmtree(d, ignore_errors=True)
    if "Error" in p.stdout and "violated" in p.stdout:
        raise tlc.MachineryError("simulation of PopMachine reported a violation:\n" + p.stdout[-1500:])
    return out, states


def replay(st: dict, direction: str, ft: list[int], N: int):
    """run the real loop along the behaviour; returns a list of mismatch descriptions (empty = conforms)"""
    act = [(a[0], list(a[1])) for a in st["act"]]
    steps = st["steps"]
    task = KindTask(variables=[ContinuousVariable(name="x", lower_bound=1.0, upper_bound=3.0)], minmax=direction,
                    data={"calls": [], "ft": ft})
    o = KindOpt(BaseOptimizationConfig(population_size=N, max_cycles=max(steps, 1), fitness_error=None))
    o._script = act
    import warnings
    import numpy as np
    with contextlib.redirect_stdout(io.StringIO()), warnings.catch_warnings(), np.errstate(all="ignore"):
        warnings.simplefilter("ignore")
        res = o.optimize(task)
    sign = 1 if direction == "min" else -1
    bad = []

    def mpop(p):       # model population -> multiset of (position, internal cost)
        return Counter((float(a["p"]), val(a["c"])) for a in p)
    snaps_m = st["snaps"]
    if len(o._snaps) != len(snaps_m):
        bad.append(("C04.replay", f"{len(o._snaps)} snapshots, model has {len(snaps_m)}"))
    for g, (real, model) in enumerate(zip(o._snaps, snaps_m)):
        if len(real) != len(model):
            bad.append(("C10.replay", f"generation {g}: {len(real)} agents, model {len(model)}"))
        elif Counter(real) != mpop(model):
            pos_ok = Counter(p for p, _ in real) == Counter(float(a["p"]) for a in model)
            bad.append(("C02.replay" if pos_ok else "C01.replay", f"generation {g}: {sorted(real)} vs model {sorted(mpop(model).elements())}"))
    evo_m = st["evo"]
    if len(res.evolution) != len(evo_m):
        bad.append(("C15.replay", f"{len(res.evolution)} recorded generations, model has {len(evo_m)}"))
    for g, (real, model) in enumerate(zip(res.evolution, evo_m)):
        r = Counter((a.position[0], a.cost) for a in real.agents)
        mm = Counter((float(a["p"]), val(a["u"])) for a in model)
        if r != mm:
            bad.append(("C15.replay", f"recorded generation {g}: {sorted(r.elements())} vs model {sorted(mm.elements())}"))
    calls_r = {c if not (isinstance(c, float) and math.isnan(c)) else "nan" for c in task.data["calls"]}
    calls_m = {float(c) for c in st["calls"]}
    if calls_r != calls_m:
        bad.append(("C05.replay", f"objective arguments {sorted(map(str, calls_r))} vs model {sorted(calls_m)}"))
    if st["pc"] == "done":
        b = res.best_solution
        if (b.position[0], b.cost) != (float(st["best"]["p"]), val(st["best"]["u"])):
            # ties: the model picks one optimal member; any member with the same cost is the same verdict
            last = st["evo"][-1]
            costs = [val(a["u"]) for a in last]
            opt = min(costs) if direction == "min" else max(costs)
            if not (b.cost == opt and any(float(a["p"]) == b.position[0] and val(a["u"]) == b.cost for a in last)):
                bad.append(("C03.replay", f"best_solution {(b.position[0], b.cost)} vs model {st['best']}"))
    return bad


GEN_CFGS = [("PopMachine_gen.cfg", "min", "FT1", 2), ("PopMachine_gen_max.cfg", "max", "FT2", 2),
            # an objective that is +-infinity at two points of the space (the property quantifies over every objective value)
            ("PopMachine_gen_inf.cfg", "min", "FT3", 2), ("PopMachine_gen_inf_max.cfg", "max", "FT3", 2)]


def run(chk: Check, pid: str):
    """replay TLC-generated behaviours into the real loop; mismatches are violations of the property the component belongs to"""
    thorough = chk.tier == "thorough"
    total = 0
    for cfg, direction, ftname, N in GEN_CFGS:
        sts, nstates = behaviours(cfg, 1500 if thorough else 250, chk.seed + 11)
        chk.states += nstates
        chk.transitions += nstates
        for st in sts:
            total += 1
            for clause, detail in replay(st, direction, FTS[ftname], N):
                if clause.startswith(pid + "."):
                    chk.violation(clause, {"driver": "model behaviour replayed into the real loop", "dir": direction},
                                  {"behaviour": [(a[0], list(a[1])) for a in st["act"]], "detail": detail})
            chk.distinct.add(("replayed", direction, tuple((a[0], tuple(a[1])) for a in st["act"])))
    chk.extra["model_behaviours_replayed_into_real_loop"] = total
    chk.evaluations += total
    chk.traces += total
