"""C07 / C08 / C18 (and the C09 clauses seen on call histories).

(M) Instance.tla exhaustive over all call histories up to the bound + named deviations that must fail.
(G) the histories themselves (the `trace` history variable of every dumped state) are replayed on the real classes:
    all of them on every class in the thorough tier; a covering subset (every action, every ordered pair of
    consecutive actions) plus a seeded sample per class in the quick tier.
(V) TraceInstance.tla replays the recorded events and judges RunFunctional / ResultsImmutable / CallerUntouched /
    NoConfigRefuses / SetConfigEquals.  Reference runs of every key are made in a freshly spawned interpreter.
"""
from __future__ import annotations

import concurrent.futures as cf
import contextlib
import hashlib
import io
import json
import os
import random
import subprocess
import sys
import warnings

from . import gen, tlc, tlaval
from .common import Check, WORK, ROOT
from .judge import judge

DEVS = {
    "C07": [("Instance_usestd.cfg", "RunFunctional"), ("Instance_seedless.cfg", "RunFunctional")],
    "C08": [("Instance_noreset.cfg", "RunFunctional"), ("Instance_privleak.cfg", "RunFunctional"),
            ("Instance_aliasrates.cfg", ("RunFunctional", "ResultsImmutable"))],
    "C09": [("Instance_writescfg.cfg", "CallerUntouched")],
    "C06": [("Instance_latecheck.cfg", "BadCallRefused")],
    "C18": [("Instance_ctorderef.cfg", "CanConstructEmpty"), ("Instance_cachector.cfg", "SetConfigRunEquals")],
}
RULE = ("histories = the call histories (Construct / SetConfig / Optimize / PerturbNp / PerturbStd, 2 configurations, bad "
        "dictionaries, 2 seeded tasks) carried by the states of Instance.tla, replayed on the real classes; reference runs in a "
        "fresh interpreter; distinct = (optimizer, history shape)")

TASKS = {
    1: {"vars": [{"t": "contmulti", "lbs": [-2.0, -1.0, 0.5], "ubs": [3.0, 1.0, 4.0]}], "family": "sphere", "shift": [0.5, 0.0, 1.0],
        "coef": [1.0, 2.0, 0.5], "nobj": 1, "weights": None, "minmax": "min", "seed": 42, "encoding": "contmulti", "dim": 3},
    2: {"vars": [{"t": "cont", "lb": 0.0, "ub": 5.0}, {"t": "cont", "lb": -4.0, "ub": 0.0}, {"t": "cont", "lb": -1.0, "ub": 1.0}],
        "family": "rastrigin", "shift": [1.0, -1.0, 0.25], "coef": [1.0, 1.0, 1.0], "nobj": 1, "weights": None, "minmax": "max",
        "seed": 0, "encoding": "cont", "dim": 3},
    # a permutation task with STRING items: anything that depends on hashing (set order) differs between interpreters
    3: {"vars": [{"t": "perm", "n": 6}], "family": "sphere", "shift": [0.0], "coef": [1.0], "nobj": 1, "weights": None, "minmax": "min",
        "seed": 42, "encoding": "perm", "dim": 1},
}
MODEL_TASKS = (1, 2)         # the task values of Instance.tla; task 3 only appears in the cross-interpreter reference events


# invalid calls on a configured instance (C06): each must be refused with ValueError before any cycle runs
BAD_CALLS = [("mode", {"mode": "warp"}), ("workers0", {"mode": "thread", "workers": 0}), ("workers-", {"workers": -3}), ("weights", {})]
BAD_WEIGHTS_TASK = {"vars": [{"t": "multiobj", "lbs": [-1.0, 0.0], "ubs": [1.0, 2.0]}], "family": "sphere", "shift": [0.0, 1.0], "coef": [1.0, 1.0],
                    "nobj": 2, "weights": [1.0, 0.5, 2.0], "minmax": "min", "seed": 5, "encoding": "multiobj", "dim": 2}


_CFG_CACHE: dict = {}


def cfg_dicts(opt: str) -> dict:
    """two configurations per class: the documented one with a cycle bound; and one that differs in EVERY numeric
    parameter the config model lets us change (population 1.5x, jittered algorithm parameters, early stopping), so that
    a value cached from an earlier configuration cannot go unnoticed"""
    if opt in _CFG_CACHE:
        return _CFG_CACHE[opt]
    import pyvolutionary
    C = getattr(pyvolutionary, gen.FIX[opt]["config_class"])
    base = dict(gen.FIX[opt]["config"])
    c1 = {**base, "max_cycles": 3, "fitness_error": None, "early_stopping": None}
    c2 = {**base, "max_cycles": 4, "fitness_error": None, "early_stopping": {"patience": 1, "min_delta": 1e9}}
    rng = random.Random(sum(map(ord, opt)))
    for k, v in list(c2.items()):
        if k in ("max_cycles", "fitness_error", "early_stopping"):
            continue
        for factor in ((2.0, 1.5) if k == "population_size" else (1.1, 0.9, 1.5, 0.5)):
            if isinstance(v, bool) or v is None or isinstance(v, (str, dict)):
                break
            if isinstance(v, int):
                cand = max(1, int(round(v * factor))) if k == "population_size" else v + rng.choice([1, 2])
            elif isinstance(v, float):
                cand = v * factor
            elif isinstance(v, list) and all(isinstance(q, (int, float)) and not isinstance(q, bool) for q in v):
                cand = [q * factor if isinstance(q, float) else q for q in v]
            else:
                break
            trial = {**c2, k: cand}
            try:
                C(**trial)
                if gen.precondition(opt, trial, TASKS[1]) is None:
                    c2 = trial
                    break
            except Exception:
                continue
    _CFG_CACHE[opt] = {1: c1, 2: c2}
    return _CFG_CACHE[opt]


def one_parameter_variants(opt: str) -> list[tuple[str, dict]]:
    """configuration 1 with exactly one algorithm parameter changed, one variant per parameter that can be changed"""
    import pyvolutionary
    C = getattr(pyvolutionary, gen.FIX[opt]["config_class"])
    c1 = cfg_dicts(opt)[1]
    out = []
    for k, v in c1.items():
        if k in ("population_size", "max_cycles", "fitness_error", "early_stopping") or isinstance(v, (bool, str, dict)) or v is None:
            continue
        for factor in (1.5, 0.5, 1.1, 0.9):
            if isinstance(v, int):
                cand = v + (1 if factor > 1 else -1) * (2 if factor in (1.5, 0.5) else 1)
            elif isinstance(v, float):
                cand = v * factor
            elif isinstance(v, list) and all(isinstance(q, (int, float)) and not isinstance(q, bool) for q in v):
                cand = [q * factor if isinstance(q, float) else q for q in v]
                if cand == v:
                    break
            else:
                break
            trial = {**c1, k: cand}
            try:
                C(**trial)
            except Exception:
                continue
            if gen.precondition(opt, trial, TASKS[1]) is None:
                out.append((k, trial))
                break
    return out


def bad_dicts(opt: str) -> list[dict]:
    """parameter dictionaries the config model must reject: a wrong type, and (if one can be found) an out-of-range value"""
    import pyvolutionary
    cls = getattr(pyvolutionary, gen.FIX[opt]["config_class"])
    base = cfg_dicts(opt)[1]
    out = [{**base, "population_size": "many"}]
    req = [k for k, f in cls.model_fields.items() if f.is_required() and k in base]
    if req:
        out.append({k: v for k, v in base.items() if k != req[-1]})       # a required parameter is missing
    for k, v in base.items():
        if k in ("population_size", "max_cycles", "fitness_error", "early_stopping") or isinstance(v, (bool, str, dict)) or v is None:
            continue
        for cand in (-1e9, 1e9, -1):
            d = {**base, k: ([cand] * len(v) if isinstance(v, list) else cand)}
            try:
                cls(**d)
            except Exception:
                out.append(d)
                break
        if len(out) >= 2:
            break
    return out


def digest(res) -> str:
    body = [[[a.position, repr(a.cost), repr(a.fitness)] for a in g.agents] for g in res.evolution]
    b = res.best_solution
    s = json.dumps([body, [repr(r) for r in res.rates], [b.position, repr(b.cost), repr(b.fitness)]], default=repr)
    return hashlib.sha1(s.encode()).hexdigest()


def _quiet():
    return contextlib.redirect_stdout(io.StringIO())


def dump_cfg(c) -> str:
    return "None" if c is None else json.dumps(c.model_dump(), sort_keys=True, default=repr)


def replay(opt: str, histories: list[list], refs: dict) -> list[dict]:
    """replay histories on class `opt`; returns one record per history with interned ids"""
    import numpy as np
    import pyvolutionary
    from . import tasks as T
    X = getattr(pyvolutionary, opt)
    C = getattr(pyvolutionary, gen.FIX[opt]["config_class"])
    cds = cfg_dicts(opt)
    bads = bad_dicts(opt)
    ids = {"None": 0}

    def iid(s):
        return ids.setdefault(s, len(ids))
    # configuration values 1, 2 get stable ids first
    for k in (1, 2):
        iid(dump_cfg(C(**cds[k])))
    dig = {}

    def did(s):
        return dig.setdefault(s, len(dig) + 1)
    out = []
    base_cds, base_refs = cds, refs
    runs = [(hid, h, base_cds, base_refs, "") for hid, h in enumerate(histories)]
    # one-parameter variants: the model's history Construct(1) Optimize(t) SetConfig(2) Optimize(t) with configuration "2"
    # concretised as configuration 1 with exactly ONE parameter changed (every parameter in turn): a value derived from
    # that parameter and cached by the earlier run must not survive.  The reference for the variant is a fresh instance
    # constructed with it (in this interpreter).
    if histories:
        for pname, vd in one_parameter_variants(opt):
            ref2 = {}
            try:
                with _quiet(), warnings.catch_warnings(), np.errstate(all="ignore"):
                    warnings.simplefilter("ignore")
                    ref2 = {"raised": "", "digest": digest(X(C(**vd)).optimize(T.build_task(TASKS[1])))}
            except Exception as ex:
                ref2 = {"raised": type(ex).__name__, "digest": ""}
            vrefs = {f"{opt}/1/1": base_refs.get(f"{opt}/1/1"), f"{opt}/2/1": ref2}
            runs.append((1, [("Construct", 1), ("Optimize", 1), ("SetConfig", 2), ("Optimize", 1)], {1: base_cds[1], 2: vd}, vrefs, f"@{pname}"))
    for hid, h, cds, refs, vtag in runs:
        events = []
        for k in (1, 2):
            for t in (1, 2):
                r = refs.get(f"{opt}/{k}/{t}")
                if r is not None:
                    events.append({"ev": "Ref", "t": t, "cfgid": iid(dump_cfg(C(**cds[k]))), "raised": r["raised"],
                                   "seedtype": bool(r.get("seedtype")), "digest": did(r["digest"]) if r["digest"] else 0})
        if hid == 0 and not vtag:
            # cross-interpreter reproducibility on the integer-coded / string-labelled task: reference from another
            # interpreter (different PYTHONHASHSEED), then the same key here on a fresh instance
            r = refs.get(f"{opt}/1/3")
            if r is not None and r["raised"] == "":
                c1 = C(**cds[1])
                events.append({"ev": "Ref", "t": 3, "cfgid": iid(dump_cfg(c1)), "raised": "", "seedtype": False, "digest": did(r["digest"])})
                ev3 = {"ev": "Construct", "c": iid(dump_cfg(c1)), "raised": ""}
                events.append(ev3)
                e3 = {"ev": "Optimize", "t": 3, "cfgid": iid(dump_cfg(c1)), "cfgafter": iid(dump_cfg(c1)), "caller_same": True, "task_same": True, "earlier_same": True}
                try:
                    with _quiet(), warnings.catch_warnings(), np.errstate(all="ignore"):
                        warnings.simplefilter("ignore")
                        res3 = X(c1).optimize(T.build_task(TASKS[3], cls=T.DecodingTask))
                    e3["raised"], e3["digest"] = "", did(digest(res3))
                except Exception as ex:
                    e3["raised"], e3["digest"] = type(ex).__name__, 0
                if e3["raised"] == "":
                    events.append(e3)
                else:
                    events.pop()
        o, caller, returned = None, None, []
        nbad = 0
        nbadcall = hid
        for (a, x) in h:
            e = {"ev": a}
            with warnings.catch_warnings(), np.errstate(all="ignore"):
                warnings.simplefilter("ignore")
                if a == "Construct":
                    caller = C(**cds[x]) if x else None
                    e["c"] = iid(dump_cfg(caller))
                    try:
                        o = X(caller) if caller is not None else X()
                        e["raised"] = ""
                    except Exception as ex:
                        o, e["raised"] = None, type(ex).__name__
                elif a == "SetConfig":
                    if o is None:
                        continue
                    d = bads[nbad % len(bads)] if x == -1 else cds[x]
                    nbad += 1 if x == -1 else 0
                    if x != -1 and not vtag and (hid + len(events)) % 2 == 1:
                        # a dictionary that only carries the required parameters: the others must take the config model's
                        # DEFAULTS, whatever configuration the instance had before
                        dmin = {k: v for k, v in cds[x].items() if C.model_fields[k].is_required()}
                        try:
                            C(**dmin)
                            d = dmin
                        except Exception:
                            pass          # the defaults do not fit these required values: keep the complete dictionary
                    want = None if x == -1 else C(**d)
                    e["d"] = -1 if x == -1 else iid(dump_cfg(want))
                    try:
                        o.set_config_parameters(dict(d))
                        e["raised"] = ""
                    except Exception as ex:
                        e["raised"] = "ValidationError" if type(ex).__name__ == "ValidationError" else type(ex).__name__
                    e["after"] = iid(dump_cfg(o.configuration))
                    e["equal_built"] = bool(x != -1 and o.configuration == want and type(o.configuration) is C)
                elif a == "Optimize":
                    if o is None:
                        continue
                    task = T.build_task(TASKS[x])
                    from .corpus import _dump_model
                    t0 = _dump_model(task)
                    c0 = dump_cfg(caller)
                    e["t"] = x
                    e["cfgid"] = iid(dump_cfg(o.configuration))
                    T.REC.reset()
                    try:
                        with _quiet():
                            res = o.optimize(task)
                        e["raised"], e["digest"] = "", did(digest(res))
                        returned.append((res, digest(res)))
                    except Exception as ex:
                        e["raised"], e["digest"] = type(ex).__name__, 0
                        e["msg"] = str(ex)[:200]
                    e["cfgafter"] = iid(dump_cfg(o.configuration))
                    e["caller_same"] = dump_cfg(caller) == c0
                    e["task_same"] = _dump_model(task) == t0
                    e["earlier_same"] = all(digest(r) == d0 for r, d0 in returned)
                elif a == "OptimizeBadCall":
                    if o is None or o.configuration is None:
                        continue
                    variant = BAD_CALLS[nbadcall % len(BAD_CALLS)]
                    nbadcall += 1
                    desc = TASKS[x] if variant[0] != "weights" else BAD_WEIGHTS_TASK
                    task = T.build_task(desc)
                    cnt = {"n": 0}
                    orig = o.optimization_step

                    def counting(_orig=orig, _cnt=cnt):
                        _cnt["n"] += 1
                        return _orig()
                    o.optimization_step = counting
                    T.REC.reset()
                    e["t"], e["variant"] = x, variant[0]
                    try:
                        with _quiet():
                            o.optimize(task, **variant[1])
                        e["raised"] = ""
                    except Exception as ex:
                        e["raised"] = "ValidationError" if type(ex).__name__ == "ValidationError" else type(ex).__name__
                    finally:
                        del o.optimization_step
                    e["steps"] = cnt["n"]
                elif a == "PerturbNp":
                    np.random.random(3)
                elif a == "PerturbStd":
                    random.random()
            events.append(e)
        out.append({"opt": opt, "events": events, "shape": "·".join(f"{a}{x if a in ('Construct', 'SetConfig') else ''}" for a, x in h) + vtag})
    return out


def reference_main():
    """entry point of the fresh interpreter: python -m harness.instance <out.json> opt..."""
    import pyvolutionary
    from . import tasks as T
    outp, opts = sys.argv[1], sys.argv[2:]
    refs = {}
    for opt in opts:
        X = getattr(pyvolutionary, opt)
        C = getattr(pyvolutionary, gen.FIX[opt]["config_class"])
        for k, cd in cfg_dicts(opt).items():
            for t, td in TASKS.items():
                if t == 3 and k != 1:
                    continue
                try:
                    with _quiet(), warnings.catch_warnings():
                        warnings.simplefilter("ignore")
                        res = X(C(**cd)).optimize(T.build_task(td, cls=T.DecodingTask if t == 3 else None))
                    refs[f"{opt}/{k}/{t}"] = {"raised": "", "digest": digest(res)}
                except Exception as ex:
                    from .corpus import crash_site
                    site = crash_site(sys.exc_info()[2])
                    refs[f"{opt}/{k}/{t}"] = {"raised": type(ex).__name__, "digest": "", "msg": str(ex)[:200], "site": site,
                                              "seedtype": isinstance(ex, TypeError) and site == "abstract.optimize"}
    json.dump(refs, open(outp, "w"))


def references(opts: list[str]) -> dict:
    d = tlc.workdir("refs")
    procs = []
    chunks = [opts[k::8] for k in range(8)]
    for k, ch in enumerate(chunks):
        if ch:
            env = dict(os.environ, PYTHONPATH=f"{ROOT}:{os.environ.get('VERIF_REPO', '/repo')}", PYTHONHASHSEED=str(1000 + k))
            procs.append((d / f"r{k}.json", subprocess.Popen([sys.executable, "-m", "harness.instance", str(d / f"r{k}.json"), *ch],
                                                            env=env, cwd=str(ROOT), stdout=subprocess.DEVNULL, stderr=subprocess.PIPE)))
    refs = {}
    for path, p in procs:
        _, err = p.communicate(timeout=1800)
        if p.returncode != 0:
            raise tlc.MachineryError(f"reference interpreter failed: {err.decode()[-800:]}")
        refs.update(json.load(open(path)))
    import shutil
    shutil.rmtree(d, ignore_errors=True)
    return refs


def histories_from_tlc(chk: Check, cfgname: str) -> list[list]:
    dump = WORK / f"instance-{os.getpid()}.dump"
    res = tlc.run("Instance.tla", cfgname, workers=16, timeout=1800, extra=["-dump", str(dump)])
    chk.model(cfgname, res, note="RunFunctional, ResultsImmutable, CallerUntouched, CanConstructEmpty, NoConfigRefuses, "
                                 "RefusedMeansNoConfig, SetConfigEquals, SetConfigRunEquals over all call histories up to the bound")
    states = tlaval.parse_dump(dump)
    dump.unlink(missing_ok=True)
    hs = [[(a, x) for a, x in s["trace"]] for s in states if len(s["trace"]) > 0]
    return hs


def cover(hs: list[list]) -> list[list]:
    """smallest-first greedy cover of every action and every ordered pair of consecutive actions"""
    want = set()
    for h in hs:
        for k, s in enumerate(h):
            want.add((s,))
            if k:
                want.add((h[k - 1], s))
    chosen = []
    for h in sorted(hs, key=lambda q: (-len(q), q)):
        got = {(s,) for s in h} | {(h[k - 1], h[k]) for k in range(1, len(h))}
        if got & want:
            chosen.append(h)
            want -= got
        if not want:
            break
    return chosen


def interesting(h) -> bool:
    """histories that can tell something: at least one Optimize on a live instance"""
    alive = False
    for a, x in h:
        if a == "Construct":
            alive = True
        if a == "Optimize" and alive:
            return True
    return False


def _worker(args):
    opt, hs, refs = args
    return replay(opt, hs, refs)


def main_for(chk: Check, pid: str):
    thorough = chk.tier == "thorough"
    hs = histories_from_tlc(chk, "Instance_mc.cfg")
    if thorough:
        chk.model("Instance_mc_thorough.cfg", tlc.run("Instance.tla", "Instance_mc_thorough.cfg", workers=16, timeout=1800),
                  note="histories up to length 5")
    for cfg, law in DEVS.get(pid, []):
        chk.model(cfg, tlc.run("Instance.tla", cfg, workers=4, timeout=600), expect=law, note="named deviation")
    hs = [h for h in hs if interesting(h) or any(a in ("Construct", "SetConfig") for a, _ in h)]
    cov = cover(hs)
    rng = random.Random(chk.seed)
    opts = gen.OPTIMIZERS
    refs = references(opts)
    jobs = []
    pool = [h for h in hs if interesting(h)]
    badcall = [h for h in hs if any(a == "OptimizeBadCall" for a, _ in h) or any(a == "SetConfig" and x == -1 for a, x in h)]
    for opt in opts:
        if pid == "C06":
            mine = (badcall if thorough else rng.sample(badcall, min(25, len(badcall))))
        elif thorough:
            mine = hs
        else:
            mine = cov + rng.sample(pool, min(60, len(pool)))
        jobs.append((opt, mine, refs))
    records = []
    with cf.ProcessPoolExecutor(14) as ex:
        for recs in ex.map(_worker, jobs):
            records.extend(recs)
    for k, r in enumerate(records):
        r["id"] = k + 1
    bad, st, consumed = judge("TraceInstance.tla", "TraceInstance.cfg",
                              [{"id": r["id"], "events": r["events"]} for r in records], f"inst-{pid}", jobs=12, per_batch=400)
    chk.states += st
    chk.transitions += st
    chk.traces = consumed
    chk.evaluations = sum(1 for r in records for e in r["events"] if e["ev"] == "Optimize")
    byid = {r["id"]: r for r in records}
    prefix = pid + "."
    for rid, clause in bad:
        if not clause.startswith(prefix):
            continue
        r = byid[rid]
        key = {"optimizer": r["opt"]}
        if clause == "C06.reject":
            key["variant"] = next((e.get("variant", "?") for e in r["events"] if e["ev"] == "OptimizeBadCall" and not (e.get("raised") in ("ValueError", "ValidationError") and e.get("steps") == 0)), "?")
        if clause in ("C08.crash", "C07.crash_fresh", "C07.seedtype"):
            key["exception"] = next((e["raised"] for e in r["events"] if e.get("raised") and e["ev"] in ("Optimize", "Ref")), "?")
        chk.violation(clause, key, {"history": r["shape"], "events": r["events"]})
    for r in records:
        chk.distinct.add((r["opt"], r["shape"]))
    if pid in ("C07", "C08"):
        # the same relation on every serial run of the run corpus (all task families / configurations / scales):
        # C07.repro = a second fresh instance differs; C08.reuse = a third run on that used instance differs
        from . import corpus as _corpus
        v = _corpus.corpus(chk.tier, chk.seed)
        crecs = {r["id"]: r for r in v["records"]}
        serial = [r for r in v["records"] if r["mode"] == "serial" and r["completed"]]
        for rid, clause in v["bad"]:
            if clause.startswith(prefix):
                chk.violation(clause, {"optimizer": crecs[rid]["opt"]}, {"run": crecs[rid]["spec"], "rerun_exception": crecs[rid].get("rerun_exception")})
        chk.traces += len(serial)
        chk.evaluations += 2 * len(serial)
        chk.extra["corpus_runs_repeated"] = len(serial)
        for r in serial:
            chk.distinct.add((r["opt"], "corpus", r["encoding"], r["dir"], r["mc"]))
    chk.extra["histories_from_tlc"] = len(hs)
    chk.extra["covering_subset"] = len(cov)
    chk.extra["replayed_histories"] = len(records)
    chk.extra["reference_runs_in_fresh_interpreters"] = len(refs)
    chk.sample({"opt": records[0]["opt"], "history": records[len(records) // 2]["shape"], "events": records[len(records) // 2]["events"]})
    # canaries
    clean = [r for r in records if r["id"] not in {i for i, _ in bad}]
    can, want = [], {}
    for r in clean:
        ev = r["events"]
        refkeys = {(e["cfgid"], e["t"]) for e in ev if e["ev"] == "Ref" and e.get("raised") == ""}
        opt_idx = [k for k, e in enumerate(ev) if e["ev"] == "Optimize" and e.get("raised") == "" and e.get("digest")
                   and (e["cfgid"], e["t"]) in refkeys]
        if not opt_idx or len(can) >= 6:
            continue
        c = json.loads(json.dumps({"id": len(can) + 1, "events": ev}))
        k = opt_idx[-1]
        if pid in ("C07", "C08"):
            # is this a first run on its instance?
            first = not any(e["ev"] == "Optimize" and e.get("raised") == "" for e in ev[max(j for j in range(k) if ev[j]["ev"] == "Construct"):k])
            if (pid == "C07") != first:
                continue
            c["events"][k]["digest"] = 999999
            want[c["id"]] = f"{pid}.equal"
        elif pid == "C18":
            cs = [j for j, e in enumerate(ev) if e["ev"] == "SetConfig" and e["d"] != -1 and e["raised"] == ""]
            if not cs:
                continue
            c["events"][cs[0]]["equal_built"] = False
            want[c["id"]] = "C18.setconfig"
        elif pid == "C09":
            c["events"][k]["caller_same"] = False
            want[c["id"]] = "C09.cfg"
        can.append(c)
    if can:
        cbad, _, _ = judge("TraceInstance.tla", "TraceInstance.cfg", can, f"inst-canary-{pid}", jobs=1)
        for i, cl in want.items():
            chk.canary(f"{cl}#{i}", (i, cl) in set(cbad), "corrupted event of a replayed history")
    chk.assumptions += [
        "results are compared through a digest of every position, cost, fitness and rate (repr of the floats: bit-exact)",
        "two configurations (cycle bound; early stopping) and two seeded tasks (min / max) per class; the library's own Task.seed is used",
        "reference runs are made in freshly spawned interpreters with a different PYTHONHASHSEED",
    ]


if __name__ == "__main__":
    reference_main()
