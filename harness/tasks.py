"""Recording tasks (module level, so they survive pickling into pool workers) and the harness's own
membership / objective oracles built from the *descriptor*, never from Task.get_bounds / is_valid_solution.

A descriptor is a plain dict:
  {"vars": [{"t": "cont", "lb": -1.0, "ub": 2.0} | {"t": "contmulti"|"multiobj", "lbs": [...], "ubs": [...]} |
            {"t": "disc", "n": 4} | {"t": "discmulti", "ns": [2, 3]} | {"t": "bin", "n": 3} | {"t": "perm", "n": 5}],
   "family": "sphere" | "linear" | "rastrigin" | "absneg" | "step",
   "shift": [...], "coef": [...],         # one per flattened coordinate
   "nobj": 1 | k, "weights": None | [...], "minmax": "min" | "max", "seed": int}
"""
from __future__ import annotations

import json
import math
import os
import sys
import threading

import numpy as np

sys.path.insert(0, os.environ.get("VERIF_REPO", "/repo"))
import importlib  # noqa: E402

_m = importlib.import_module("pyvolutionary.models")


# ----------------------------------------------------------------------------- recorder
class Recorder:
    """Objective calls of the current run. In process mode the list lives in a file (O_APPEND, one JSON line per
    call, < PIPE_BUF) because calls happen in forked workers; ordering uses (pid, per-process seq), never time."""

    def __init__(self):
        self.reset()

    def reset(self, path: str | None = None):
        self.calls = []          # (phase, x, value, site)
        self.phase = 0
        self.path = path
        self.seq = 0
        self.lock = threading.Lock()
        self.delay = None        # optional callable: injected per-evaluation delay (C11)

    def record(self, x, value, site):
        if self.path is None:
            self.calls.append((self.phase, x, value, site))
            return
        with self.lock:
            self.seq += 1
            line = json.dumps({"pid": os.getpid(), "seq": self.seq, "phase": self.phase, "x": x, "v": value, "site": site},
                              default=_jd) + "\n"
        fd = os.open(self.path, os.O_WRONLY | os.O_APPEND | os.O_CREAT, 0o600)
        try:
            os.write(fd, line.encode())
        finally:
            os.close(fd)

    def load(self):
        """all calls of the run as (phase, x, value, site)"""
        out = [(ph, _unjd(x), _unjd(v), site) for (ph, x, v, site) in self.calls]
        if self.path and os.path.exists(self.path):
            rows = [json.loads(ln) for ln in open(self.path) if ln.strip()]
            rows.sort(key=lambda r: (r["pid"], r["seq"]))
            out += [(r["phase"], _unjd(r["x"]), _unjd(r["v"]), r["site"]) for r in rows]
        return out


def load_by_pid(path: str) -> dict:
    """process-mode log: pid -> arguments in that process's own order (per-process sequence numbers)"""
    rows = [json.loads(ln) for ln in open(path) if ln.strip()] if path and os.path.exists(path) else []
    rows.sort(key=lambda r: (r["pid"], r["seq"]))
    out = {}
    for r in rows:
        out.setdefault(r["pid"], []).append(_unjd(r["x"]))
    return out


def _jd(o):
    if isinstance(o, (np.integer,)):
        return int(o)
    if isinstance(o, (np.floating,)):
        return _jd(float(o))
    if isinstance(o, np.ndarray):
        return o.tolist()
    return repr(o)


def _fix(o):
    """JSON cannot carry nan/inf portably: encode them as strings"""
    if isinstance(o, float) and (math.isnan(o) or math.isinf(o)):
        return "nan" if math.isnan(o) else ("inf" if o > 0 else "-inf")
    if isinstance(o, (list, tuple)):
        return [_fix(v) for v in o]
    return o


def _unjd(o):
    if isinstance(o, str) and o in ("nan", "inf", "-inf"):
        return float(o)
    if isinstance(o, list):
        return [_unjd(v) for v in o]
    return o


REC = Recorder()


def _site() -> str:
    """innermost frame of an algorithm module (pyvolutionary/<algo>/...) on the stack, else the abstract-level caller"""
    f = sys._getframe(2)
    fallback = "?"
    while f is not None:
        fn = f.f_code.co_filename
        if "/pyvolutionary/" in fn:
            tail = fn.split("/pyvolutionary/", 1)[1]
            if "/" in tail:
                return f"{tail.split('/')[0]}.{f.f_code.co_name}"
            if fallback == "?" and f.f_code.co_name not in ("solve", "_fcn", "_init_agent"):
                fallback = f"{tail[:-3]}.{f.f_code.co_name}"
        f = f.f_back
    return fallback


# ----------------------------------------------------------------------------- objective (pure function of x)
def flat_numbers(x) -> list:
    out = []
    for v in x:
        if isinstance(v, (list, tuple, np.ndarray)):
            out.extend(v)
        else:
            out.append(v)
    return out


def g_family(fam: str, z: float, a: float, s: float) -> float:
    if math.isnan(z) or math.isinf(z):
        return math.nan             # the harness objective is total: an out-of-domain argument must not crash it
    if fam == "sphere":
        return a * (z - s) ** 2
    if fam == "linear":
        return a * (z - s)
    if fam == "rastrigin":
        return 10 + (z - s) ** 2 - 10 * math.cos(2 * math.pi * (z - s))
    if fam == "absneg":
        return -a * abs(z - s)
    if fam == "step":
        return a * math.floor(z - s)
    raise ValueError(fam)


def objective(desc: dict, x):
    """harness objective: sum over flattened numbers; a permutation coordinate contributes a tour-like term"""
    fam, shift, coef = desc["family"], desc["shift"], desc["coef"]
    nobj = desc.get("nobj", 1)
    vals = [0.0] * nobj
    k = 0
    for v in x:
        if isinstance(v, (list, tuple, np.ndarray)):
            p = list(v)
            t = 0.0
            for i in range(len(p)):
                t += abs(float(p[i]) - float(p[(i + 1) % len(p)])) * (1 + (i % 3))
            for j in range(nobj):
                vals[j] += t * (j + 1)
            k += 1
        else:
            z = float(v)
            for j in range(nobj):
                vals[j] += g_family(fam if j == 0 else ("sphere" if fam != "sphere" else "linear"), z, coef[k % len(coef)] * (j + 1), shift[k % len(shift)])
            k += 1
    sc = desc.get("scale")
    if sc and sc != 1.0:
        vals = [v * sc for v in vals]         # objective values of very small / very large magnitude
    off = desc.get("offset")
    if off:
        vals = [v + off for v in vals]        # an optimum value far from zero: converged costs agree in many digits
    if desc.get("negate"):
        vals = [-v for v in vals]
    return vals[0] if nobj == 1 else vals


class RecTask(_m.Task):
    """the user's task of a corpus run: deterministic objective, every call recorded"""

    def objective_function(self, x):
        val = objective(self.data["desc"], x)
        if REC.delay is not None:
            REC.delay(x)
        REC.record(_fix(_plain(x)), _fix(val), _site())
        if self.data["desc"].get("scribble"):
            for k in range(len(x)):           # a user objective that decodes / repairs its argument in place
                x[k] = [0] * len(x[k]) if isinstance(x[k], list) else 1e9
        return val


class DecodingTask(_m.Task):
    """like the combinatorial example of the README: the objective works on the DECODED solution (labels), so anything
    that changes the index -> label table (e.g. hash-dependent set order) changes costs and trajectories"""

    def objective_function(self, x):
        tr = self.transform_solution(x)
        idx = []
        for k, d in enumerate(self.data["desc"]["vars"]):
            v = tr[f"v{k}"]
            idx.append([int(str(q)[4:]) for q in v] if d["t"] == "perm" else v)
        return objective(self.data["desc"], idx)


class PlainTask(_m.Task):
    """same objective, nothing recorded (long sweeps)"""

    def objective_function(self, x):
        return objective(self.data["desc"], x)


def _plain(x):
    out = []
    for v in x:
        if isinstance(v, (list, tuple, np.ndarray)):
            out.append([_p1(q) for q in v])
        else:
            out.append(_p1(v))
    return out


def _p1(v):
    if isinstance(v, (bool, np.bool_)):
        return ["bool", bool(v)]
    if isinstance(v, (int, np.integer)):
        return int(v)
    if isinstance(v, (float, np.floating)):
        return float(v)
    return ["type", type(v).__name__]


def build_variable(d: dict, name: str):
    t = d["t"]
    if t == "cont":
        return _m.ContinuousVariable(name=name, lower_bound=d["lb"], upper_bound=d["ub"])
    if t == "contmulti":
        return _m.ContinuousMultiVariable(name=name, lower_bounds=list(d["lbs"]), upper_bounds=list(d["ubs"]))
    if t == "multiobj":
        return _m.MultiObjectiveVariable(name=name, lower_bounds=list(d["lbs"]), upper_bounds=list(d["ubs"]))
    if t == "disc":
        return _m.DiscreteVariable(name=name, choices=[10 * k for k in range(d["n"])])
    if t == "discmulti":
        return _m.DiscreteMultiVariable(name=name, choices=[[10 * k for k in range(n)] for n in d["ns"]])
    if t == "bin":
        return _m.BinaryVariable(name=name, n_vars=d["n"])
    if t == "perm":
        return _m.PermutationVariable(name=name, items=[f"item{k}" for k in range(d["n"])])
    raise ValueError(t)


def build_task(desc: dict, cls=None):
    cls = cls or RecTask
    kw = dict(variables=[build_variable(d, f"v{k}") for k, d in enumerate(desc["vars"])],
              minmax=desc.get("minmax", "min"), data={"desc": desc}, seed=desc.get("seed"))
    if desc.get("weights") is not None:
        kw["objective_weights"] = list(desc["weights"])
    return cls(**kw)


# ----------------------------------------------------------------------------- membership oracle (alpha)
# coordinate classes
IN, LB, UB, LT, GT, CNAN, NINF, PINF, NONINT, BADTYPE, PERM_OK, PERM_BAD = range(12)


def coord_kinds(desc: dict) -> list[dict]:
    """flattened coordinates: {"k": "cont", lb, ub} | {"k": "int", n} | {"k": "perm", n}"""
    out = []
    for d in desc["vars"]:
        t = d["t"]
        if t == "cont":
            out.append({"k": "cont", "lb": d["lb"], "ub": d["ub"]})
        elif t in ("contmulti", "multiobj"):
            out += [{"k": "cont", "lb": a, "ub": b} for a, b in zip(d["lbs"], d["ubs"])]
        elif t == "disc":
            out.append({"k": "int", "n": d["n"]})
        elif t == "discmulti":
            out += [{"k": "int", "n": n} for n in d["ns"]]
        elif t == "bin":
            out += [{"k": "int", "n": 2}] * d["n"]
        elif t == "perm":
            out.append({"k": "perm", "n": d["n"]})
    return out


def classify(kind: dict, v) -> int:
    if kind["k"] == "perm":
        if not isinstance(v, (list, tuple)):
            return BADTYPE
        try:
            ok = len(v) == kind["n"] and all(isinstance(q, (int, np.integer)) and not isinstance(q, (bool, np.bool_)) for q in v) \
                and sorted(int(q) for q in v) == list(range(kind["n"]))
        except Exception:
            ok = False
        return PERM_OK if ok else PERM_BAD
    if isinstance(v, (bool, np.bool_)) or not isinstance(v, (int, float, np.integer, np.floating)):
        return BADTYPE
    f = float(v)
    if math.isnan(f):
        return CNAN
    if math.isinf(f):
        return PINF if f > 0 else NINF
    if kind["k"] == "cont":
        lo, hi = kind["lb"], kind["ub"]
    else:
        if not isinstance(v, (int, np.integer)):
            return NONINT            # an integer index must be an integer, not a float that happens to be whole
        lo, hi = 0, kind["n"] - 1
    if f < lo:
        return LT
    if f > hi:
        return GT
    return LB if f == lo else UB if f == hi else IN


def classes_of(kinds: list[dict], x) -> list[int]:
    """class vector of a position; a wrong length is visible as a length mismatch with the task dimension"""
    try:
        xs = list(x)
    except TypeError:
        return [BADTYPE]
    return [classify(k, v) for k, v in zip(kinds, xs)] + [BADTYPE] * max(0, len(xs) - len(kinds))
