"""C20 — Multitask runs every algorithm on every task with the designated mode.

(M) Multitask.tla: all (n, m in 1..3) x all tuples of 0..9 mode values (incl. a non-mode): the code-shaped broadcasting
    accepts exactly the valid shapes and honours one of the fitting readings; deviations flatpair / skiplast / onemode.
(G) the cases of the reduced generator model (dump) are run on the REAL Multitask with scripted optimizers / tasks of
    distinct classes logging (algorithm, task, mode, workers) from the worker processes; export into a scratch directory.
(V) TraceMulti.tla judges rejection/acceptance, every pair x n_trials, modes, workers, table shapes, export layout, and -
    `TablesRight` - that every cell of every table, and of every exported file read back from disk (csv / json / pickle),
    holds the result of exactly its (algorithm, task, trial): algorithms are recognisable by their population size, tasks
    by the cost they produce.
"""
from __future__ import annotations

import concurrent.futures as cf
import contextlib
import io
import json
import os
import random
import shutil
import tempfile
import warnings

from . import tlc, tlaval
from .common import Check, WORK
from .judge import judge

RULE = ("cases = states of Multitask.tla's generator model (n, m in 1..3, every tuple of 0..9 modes over {serial, thread}) run on "
        "the real Multitask, with seeded substitutions of 'process' and of an unknown mode, trial counts 1..2, all three export "
        "formats; distinct = (n, m, len(modes), fitting readings, has unknown mode, format)")
MODE = {1: "serial", 2: "thread", 3: "process", 9: "warp"}


def _cell(c, tn) -> list:
    """<<id_trial, task, algorithm>> of the result stored in one table cell (0 where it cannot be recognised)"""
    try:
        if isinstance(c, str):                       # a csv cell: the repr of the dictionary
            import re
            k = int(re.search(r"'id_trial': (\d+)", c).group(1))
            name = re.search(r"'problem_name': '(\w+)'", c).group(1)
            cost = float(re.search(r"best_solution=Agent\(position=\[[^\]]*\], cost=([-+.\de]+)", c).group(1))
            pop = c.split("Population(agents=[")[1].split("])")[0].count("Agent(")
        else:
            k, name = int(c["id_trial"]), str(c["problem_name"])
            sol = c["solution"]
            if isinstance(sol, dict):                # read back from json
                cost = float(sol["best_solution"]["cost"])
                pop = len(sol["evolution"][0]["agents"])
            else:
                cost = float(sol.best_solution.cost)
                pop = len(sol.evolution[0].agents)
        t = tn.index(name) + 1 if name in tn else 0
        return [k, t if abs(cost - 10 * t) < 1e-9 else 0, pop - 2]
    except Exception:
        return [0, 0, 0]


def _read_back(folder, fmt, colidx, tn) -> list:
    """the table found in the single exported file of one algorithm, projected like `cells`"""
    try:
        import pandas as pd
        fs = [f for f in os.listdir(folder) if os.path.isfile(os.path.join(folder, f))]
        if len(fs) != 1:
            return []
        p = os.path.join(folder, fs[0])
        if fmt == "csv":
            df = pd.read_csv(p)
            cols = {c: [df.iloc[k][c] for k in range(df.shape[0])] for c in df.columns}
        elif fmt == "json":
            raw = json.load(open(p))
            cols = {c: [v[k] for k in sorted(v, key=int)] for c, v in raw.items()}
        else:
            df = pd.read_pickle(p)
            cols = {c: [df.iloc[k][c] for k in range(df.shape[0])] for c in df.columns}
        return [colidx.get(str(c), [0, 0]) + [[_cell(x, tn) for x in rows]] for c, rows in cols.items()]
    except Exception:
        return []


def multi_case(args) -> dict:
    n, m, modes, nt, workers, fmt = args
    from .scripted import DriverOpt, DriverOptB, DriverOptC, DriverTask, DriverTaskB, DriverTaskC, DriverCfg
    from pyvolutionary import Multitask, ContinuousVariable
    d = tempfile.mkdtemp(prefix="multi-", dir=str(WORK / "tmp"))
    rec = {"n": n, "m": m, "modes": list(modes), "nt": nt, "workers": workers if workers is not None else 4, "fmt": fmt,
           "ctor": "", "exec": "", "calls": [], "tables": [], "columns_ok": False, "export": "", "files": [], "stray": 0,
           "cells": [], "content": []}
    try:
        ocls = [DriverOpt, DriverOptB, DriverOptC][:n]
        tcls = [DriverTask, DriverTaskB, DriverTaskC][:m]
        # algorithm a is recognisable by its population size (a + 2), task t by the cost it produces (10 t)
        algos = tuple(c(DriverCfg(population_size=a + 3)) for a, c in enumerate(ocls))
        tasks = tuple(c(variables=[ContinuousVariable(name="x", lower_bound=0.0, upper_bound=1.0)],
                        data={"dir": d, "table": {"{}": [10 * (t + 1)]}}) for t, c in enumerate(tcls))
        with contextlib.redirect_stdout(io.StringIO()), warnings.catch_warnings():
            warnings.simplefilter("ignore")
            try:
                mt = Multitask(algorithms=algos, tasks=tasks, modes=tuple(MODE[v] for v in modes) if modes else None, n_workers=workers)
            except Exception as ex:
                rec["ctor"] = type(ex).__name__
                return rec
            try:
                mt.execute(n_trials=nt, n_jobs=2)
            except Exception as ex:
                rec["exec"] = f"{type(ex).__name__}"
                rec["exec_msg"] = str(ex)[:200]
                return rec
            calls = [json.loads(ln) for ln in open(os.path.join(d, "calls.ndjson"))] if os.path.exists(os.path.join(d, "calls.ndjson")) else []
            on = [c.__name__ for c in ocls]
            tn = [c.__name__ for c in tcls]
            inv = {v: k for k, v in MODE.items()}
            rec["calls"] = [[on.index(c["opt"]) + 1, tn.index(c["task"]) + 1, inv.get(c["mode"], 0), c["workers"]] for c in calls]
            rec["tables"] = [[int(df.shape[0]), int(df.shape[1])] for df in mt._df2]
            rec["columns_ok"] = all(list(df.columns) == [f"{on[a]}_{t}" for t in tn] for a, df in enumerate(mt._df2)) and len(mt._df2) == n
            colidx = {f"{on[a]}_{tn[t]}": [a + 1, t + 1] for a in range(n) for t in range(m)}
            rec["cells"] = [[colidx.get(str(col), [0, 0]) + [[_cell(df.iloc[k][col], tn) for k in range(df.shape[0])]] for col in df.columns]
                            for df in mt._df2]
            out = os.path.join(d, "out")
            try:
                mt.export_results(fmt, save_path=out)
                rec["content"] = [_read_back(os.path.join(out, a), fmt, colidx, tn) for a in on]
                files = []
                for a in on:
                    p = os.path.join(out, a)
                    files.append(len([f for f in os.listdir(p) if os.path.isfile(os.path.join(p, f))]) if os.path.isdir(p) else 0)
                rec["files"] = files
                total = sum(len(fs) for _, _, fs in os.walk(out))
                rec["stray"] = total - sum(files)
            except Exception as ex:
                rec["export"] = type(ex).__name__
    finally:
        shutil.rmtree(d, ignore_errors=True)
    return rec


def main(chk: Check):
    thorough = chk.tier == "thorough"
    chk.model("Multitask_mc.cfg", tlc.run("Multitask.tla", "Multitask_mc.cfg", workers=16, timeout=1800),
              note="LawAccept, LawPairs, LawModes, LawTables, LawExport for n, m in 1..3 and every tuple of 0..9 values over {serial, thread, process, not-a-mode}")
    for cfg, law in (("Multitask_flatpair.cfg", "LawModes"), ("Multitask_skiplast.cfg", "LawPairs"), ("Multitask_onemode.cfg", "LawModes"), ("Multitask_taskfirst.cfg", "LawModes"),
                     ("Multitask_accumulate.cfg", "LawTables"), ("Multitask_trialzero.cfg", "LawTables"), ("Multitask_misfile.cfg", "LawExport")):
        chk.model(cfg, tlc.run("Multitask.tla", cfg, workers=8, timeout=900), expect=law, note="named deviation")
    dump = WORK / f"multi-{os.getpid()}.dump"
    res = tlc.run("Multitask.tla", "Multitask_gen.cfg", workers=16, timeout=1800, extra=["-dump", str(dump)])
    chk.model("Multitask_gen.cfg", res, note="generator model (modes over {serial, thread})")
    states = tlaval.parse_dump(dump)
    dump.unlink(missing_ok=True)
    cases = [s["c"] for s in states if s["c"]["kind"] == "case"]
    rng = random.Random(chk.seed)
    by = {}
    for c in cases:
        by.setdefault((c["n"], c["m"], len(c["modes"])), []).append(c)
    chosen = []
    for k, lst in sorted(by.items()):
        rng.shuffle(lst)
        valid = k[2] in (0, 1, k[0], k[1], k[0] * k[1])
        take = len(lst) if thorough and valid else (6 if valid else 2)
        chosen += lst[:take]
    jobs = []
    for c in chosen:
        modes = list(c["modes"])
        r = rng.random()
        if modes and r < 0.15:
            modes[rng.randrange(len(modes))] = 9          # an unknown mode somewhere
        elif modes and r < 0.30:
            modes[rng.randrange(len(modes))] = 3          # process mode
        jobs.append((c["n"], c["m"], modes, rng.choice([1, 2]), rng.choice([None, 1, 2, 3]), rng.choice(["csv", "json", "dataframe"])))
    (WORK / "tmp").mkdir(parents=True, exist_ok=True)
    with cf.ProcessPoolExecutor(12) as ex:
        records = list(ex.map(multi_case, jobs, chunksize=2))
    for k, r in enumerate(records):
        r["id"] = k + 1
    bad, st, consumed = judge("TraceMulti.tla", "TraceMulti.cfg", records, "c20", jobs=8, per_batch=400)
    chk.states += st
    chk.transitions += st
    chk.traces = consumed
    chk.evaluations = len(records)
    byid = {r["id"]: r for r in records}

    def shape_of(r):
        L, n, m = len(r["modes"]), r["n"], r["m"]
        fits = [s for s, ok in (("none", L == 0), ("one", L == 1), ("per_algorithm", L == n and L > 0), ("per_task", L == m and L > 0),
                                ("per_pair", L == n * m and L > 0)) if ok]
        return "+".join(fits) or "invalid"
    for rid, clause in bad:
        r = byid[rid]
        key = {"shape": shape_of(r)}
        if clause in ("C20.construct", "C20.execute"):
            key["exception"] = r["ctor"] or r["exec"]
        if clause == "C20.export":
            key = {"algorithms": ">1" if r["n"] > 1 else "1"}
        chk.violation(clause, key, {"record": r})
    for r in records:
        chk.distinct.add((r["n"], r["m"], len(r["modes"]), shape_of(r), 9 in r["modes"], r["fmt"]))
    chk.sample(records[len(records) // 2])
    clean = [r for r in records if r["id"] not in {i for i, _ in bad} and r["ctor"] == "" and r["exec"] == ""]
    can, want = [], {}
    for r in clean:
        c = json.loads(json.dumps(r))
        if len(r["calls"]) >= 2 and sum(1 for w in want.values() if w == "C20.pairs") < 3:
            c["calls"] = c["calls"][:-1]
            cl = "C20.pairs"
        elif r["modes"] and len(set(r["modes"])) > 1 and sum(1 for w in want.values() if w == "C20.mode") < 3:
            c["calls"] = [[a, t, (2 if md == 1 else 1), w] for a, t, md, w in c["calls"]]
            cl = "C20.mode"
        elif r["n"] > 1 and r["content"] and sum(1 for w in want.values() if w == "C20.content") < 2:
            c["content"] = c["content"][::-1]                 # every folder holds another algorithm's table
            cl = "C20.content"
        elif r["nt"] > 1 and sum(1 for w in want.values() if w == "C20.cells") < 2:
            c["cells"][0][0][2] = c["cells"][0][0][2][::-1]   # the trials of one column in the opposite order
            cl = "C20.cells"
        elif r["n"] > 1 and sum(1 for w in want.values() if w == "C20.export") < 2:
            c["files"][-1] = 0; c["stray"] = 1
            cl = "C20.export"
        else:
            continue
        c["id"] = len(can) + 1
        can.append(c)
        want[c["id"]] = cl
    if can:
        cbad, _, _ = judge("TraceMulti.tla", "TraceMulti.cfg", can, "c20-canary", jobs=1)
        for i, cl in want.items():
            chk.canary(f"{cl}#{i}", (i, cl) in set(cbad), "altered observation of a real Multitask run")
    chk.extra["cases_from_tlc"] = len(cases)
    chk.extra["cases_run"] = len(records)
    chk.assumptions += ["algorithms and tasks are instances of distinct scripted classes (the table columns and export folders are named after classes)",
                        "n_jobs = 2; trials run in Multitask's own process pool, the calls are logged through an O_APPEND file"]
