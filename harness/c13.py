"""C13 / C14 — variable types obey their domain laws; a task's search-space description is consistent.

(M) Domain.tla exhaustive + four named deviations that must fail.
(G) every state of the bounded space (dump) is turned into real Variable / Task objects of models.py.
(V) the answers of randomize / correct / decode / get_bounds / constructors / Task.* are encoded with
    DomainRel's value encoding and judged by TLC (TraceDomain.tla).  Seeded off-grid values (huge, subnormal,
    numpy scalars, one-ulp neighbours of the bounds) go through the Boolean projection.
"""
from __future__ import annotations

import json
import math
import os
import random
import sys

import numpy as np

from . import tlc, tlaval
from .common import Check, WORK
from .judge import judge

NAN, PINF, NINF, PHUGE, NHUGE, ERR, OFF = 9999, 9001, -9001, 8001, -8001, 7070, 7777
ITEMS = ["kiwi", "apple", "pear", "fig", "date"]        # deliberately not in sorted order
ITEMS_MIXED = ["depot", 7, 2.5, "apple", 3]             # the label encoder documents mixed integers, floats and strings

RULE = ("cases = every state of Domain.tla's bounded space (definitions x probe values incl. out-of-range, boundary, "
        "fractional, huge, +-inf, NaN; multi-variables with 0..3 children; task lists of 1..2(3) variables from a "
        "13-entry palette x 7 position patterns) + seeded off-grid values; distinct = (kind, variable type(s), value "
        "class / pattern)")
DEVS = [("Domain_argsort.cfg", "CorrectSolutionLaw"), ("Domain_nanpass.cfg", "LawCorrectScalar"),
        ("Domain_transposed.cfg", "BoundsLaw"), ("Domain_unwrap1.cfg", "TransformLaw")]


def _models():
    sys.path.insert(0, os.environ.get("VERIF_REPO", "/repo"))
    import importlib
    return importlib.import_module("pyvolutionary.models")


def dec(code: int) -> float:
    return {NAN: math.nan, PINF: math.inf, NINF: -math.inf, PHUGE: 1e300, NHUGE: -1e300}.get(code, code / 2)


def enc(x) -> int:
    try:
        if isinstance(x, (list, tuple, np.ndarray, str, dict)) or x is None:
            return OFF
        f = float(x)
    except Exception:
        return OFF
    if math.isnan(f):
        return NAN
    if math.isinf(f):
        return PINF if f > 0 else NINF
    if abs(f) >= 1e299:
        return PHUGE if f > 0 else NHUGE
    g = f * 2
    return int(g) if g == int(g) and abs(g) < 8000 else OFF


def is_float(x) -> bool:
    return isinstance(x, float) and not isinstance(x, bool)


def is_int(x) -> bool:
    return isinstance(x, (int, np.integer)) and not isinstance(x, (bool, np.bool_))


def build(m, d: dict, name: str, mismatch: bool = False):
    t = d["t"]
    if t == "cont":
        return m.ContinuousVariable(name=name, lower_bound=d["lb"] / 2, upper_bound=d["ub"] / 2)
    if t == "disc":
        return m.DiscreteVariable(name=name, choices=[f"c{k}" for k in range(d["n"])])
    if t == "perm":
        return m.PermutationVariable(name=name, items=(ITEMS_MIXED if d.get("mixed") else ITEMS)[:d["n"]])
    if t in ("contmulti", "multiobj"):
        cls = m.ContinuousMultiVariable if t == "contmulti" else m.MultiObjectiveVariable
        lbs = [k["lb"] / 2 for k in d["kids"]]
        ubs = [k["ub"] / 2 for k in d["kids"]]
        if mismatch:
            ubs = ubs + [ubs[-1] + 1 if ubs else 1.0]
        return cls(name=name, lower_bounds=lbs, upper_bounds=ubs)
    if t == "discmulti":
        return m.DiscreteMultiVariable(name=name, choices=[[f"c{j}" for j in range(k["n"])] for k in d["kids"]])
    if t == "bin":
        return m.BinaryVariable(name=name, n_vars=d["n"])
    raise ValueError(t)


def label_index(kid: dict, label, binary: bool) -> int:
    """code of a decoded scalar value for a child definition"""
    if kid["t"] == "cont":
        return enc(label)
    try:
        if binary:
            return 2 * int(label) if label in (0, 1) and is_int(label) else OFF
        return 2 * int(label[1:]) if isinstance(label, str) and label.startswith("c") else OFF
    except Exception:
        return OFF


def member_scalar(d, x) -> bool:
    if d["t"] == "cont":
        return is_float(x) and d["lb"] / 2 <= x <= d["ub"] / 2
    return is_int(x) and 0 <= x <= d["n"] - 1


def is_perm(n, p) -> bool:
    return isinstance(p, list) and len(p) == n and all(is_int(k) for k in p) and sorted(int(k) for k in p) == list(range(n))


def seeded(fn, seed):
    st = np.random.get_state()
    np.random.seed(seed)
    try:
        return fn()
    finally:
        np.random.set_state(st)


def kid_defs(d):
    return d["kids"] if d["t"] in ("contmulti", "multiobj", "discmulti") else [{"t": "disc", "lb": 0, "ub": 0, "n": 2, "kids": []}] * max(d["n"], 0)


def run_case(m, c: dict, rid: int) -> dict:
    r = {"id": rid, **c}
    k = c["kind"]
    if k in ("cont", "disc"):
        d = c["def"]
        var = build(m, d, "v")
        x = dec(c["v"])
        try:
            out = var.correct(x)
            out2 = var.correct(out)
            r["out"], r["out2"] = enc(out), enc(out2)
            r["typeok"] = is_float(out) if k == "cont" else is_int(out)
        except Exception:
            out = None
            r["out"], r["out2"], r["typeok"] = ERR, ERR, False
        samples = seeded(lambda: [var.randomize() for _ in range(20)], rid)
        r["rnd_ok"] = all((isinstance(s, float) and d["lb"] / 2 <= s <= d["ub"] / 2) if k == "cont"
                          else (is_int(s) and 0 <= s <= d["n"] - 1) for s in samples)
        b = var.get_bounds()
        r["bounds"] = [enc(b[0]), enc(b[1])] if k == "cont" else [enc(b[0]), 2 * math.floor(b[1])]
        r["dec"] = -1
        if k == "disc" and out is not None:
            try:
                lab = var.decode(out)
                r["dec"] = int(lab[1:]) if isinstance(lab, str) and lab in var.choices else -1
            except Exception:
                r["dec"] = -1
    elif k == "perm":
        n = c["n"]
        mixed = sum(int(x) for x in c["v"]) % 2 == 1           # half of the cases use items of mixed types
        var = build(m, {"t": "perm", "n": n, "mixed": mixed}, "p")
        v = [x / 2 for x in c["v"]]            # the model's candidates are in half units (fractions, ties, members)
        out = var.correct(v)
        out2 = var.correct(out)
        r["out"] = [int(x) for x in out] if isinstance(out, list) else []
        r["out2"] = [int(x) for x in out2] if isinstance(out2, list) else []
        base = var.decode(list(range(n)))
        try:
            got = var.decode(out)
            r["dec"] = [base.index(lbl) for lbl in got]
            # a rearrangement of the DECLARED items: same items, same types
            if sorted(map(repr, got)) != sorted(map(repr, var.items)):
                r["dec"] = []
        except Exception:
            r["dec"] = []
        samples = seeded(lambda: [var.randomize() for _ in range(10)], rid)
        r["rnd_ok"] = all(is_perm(n, s) for s in samples)
    elif k == "multi":
        d = c["def"]
        var = build(m, d, "mv")
        kids = kid_defs(d)
        x = [dec(v) for v in c["v"]]
        r["finite"] = [not (math.isnan(v) or math.isinf(v)) for v in x]
        try:
            out = var.correct(x)
            out2 = var.correct(out)
            r["out"], r["out2"], r["raised"] = [enc(o) for o in out], [enc(o) for o in out2], False
        except Exception:
            # a NaN coordinate of an integer-coded child raises in int(); such inputs are not covered by the law
            if any(not f for f in r["finite"]):
                fin = [v if f else 0.0 for v, f in zip(x, r["finite"])]
                out = var.correct(fin)
                out2 = var.correct(out)
                r["out"], r["out2"], r["raised"] = [enc(o) for o in out], [enc(o) for o in out2], False
            else:
                r["out"], r["out2"], r["raised"] = [], [], True
        samples = seeded(lambda: [var.randomize() for _ in range(10)], rid)
        r["rnd_ok"] = all(isinstance(s, list) and len(s) == len(kids) and all(member_scalar(kd, e) for kd, e in zip(kids, s))
                          for s in samples)
        r["def"] = {**d, "kids": kids}
    elif k == "ctor":
        try:
            build(m, c["def"], "cv", c["mismatch"])
            r["raised"] = False
        except (ValueError,) as ex:          # pydantic.ValidationError is a ValueError
            r["raised"] = True
        except Exception as ex:
            r["raised"] = False
            r["other_exception"] = type(ex).__name__
        if c["def"]["t"] == "bin":
            r["def"] = {**c["def"], "kids": kid_defs(c["def"])}
    elif k == "task":
        r.update(run_task(m, c))
    return r


class _T:
    cls = None


def task_class(m):
    if _T.cls is None:
        class ProbeTask(m.Task):
            def objective_function(self, x):
                return 0.0
        _T.cls = ProbeTask
    return _T.cls


PAT = {"low": lambda i: -20, "high": lambda i: 40, "inside": lambda i: 0, "frac": lambda i: 1,
       "stagger": lambda i: [-20, 1, 2, 40, 0][(i - 1) % 5], "nan": lambda i: NAN if i % 2 == 1 else 2,
       "edge": lambda i: [0, 2, 4, -2, 8][(i - 1) % 5]}


def perm_pat(p, n):
    if p == "low":
        return [n - k for k in range(1, n + 1)]
    if p == "high":
        return [k - 1 for k in range(1, n + 1)]
    if p == "stagger":
        return [(k * 2) % n for k in range(1, n + 1)]
    return [(k + 1) % n for k in range(1, n + 1)]


def flat_defs(vars_):
    out = []
    for d in vars_:
        out.extend(kid_defs(d) if d["t"] in ("contmulti", "multiobj", "discmulti", "bin") else [d])
    return out


def enc_coord(d, v):
    if d["t"] == "perm":
        return [int(x) if is_int(x) or (isinstance(x, float) and x.is_integer()) else OFF for x in v] if isinstance(v, (list, tuple, np.ndarray)) else []
    return enc(v)


def _same(x, y) -> bool:
    import numpy as _np
    return bool(_np.all(_np.asarray(x, dtype=float) == _np.asarray(y, dtype=float)))


def run_task(m, c: dict) -> dict:
    T = task_class(m)
    vars_ = c["vars"]
    names = [f"v{k + 1}" for k in range(len(vars_))]
    task = T(variables=[build(m, d, nm) for d, nm in zip(vars_, names)])
    defs = flat_defs(vars_)
    D = len(defs)
    r = {"dim": int(task.space_dimension), "nflat": len(task.get_variables())}
    # bounds
    try:
        lb, ub = task.get_bounds()
        lbs, ubs = [], []
        ok = len(lb) == D and len(ub) == D
        for k, d in enumerate(defs):
            if not ok or d["t"] == "perm":
                lbs.append(0); ubs.append(0)
            elif d["t"] == "cont":
                lbs.append(enc(lb[k])); ubs.append(enc(ub[k]))
            else:
                lbs.append(enc(lb[k])); ubs.append(2 * math.floor(float(ub[k])))
        # consistency with the declared variables: the task's bounds are the concatenation of each variable's OWN get_bounds()
        own_lb, own_ub = [], []
        for var in task.variables:
            a, b = var.get_bounds()
            own_lb.extend(list(a) if var.has_children() else [a])
            own_ub.extend(list(b) if var.has_children() else [b])
        try:
            eq = ok and all(_same(x, y) for x, y in zip(lb, own_lb)) and all(_same(x, y) for x, y in zip(ub, own_ub)) \
                and len(own_lb) == D and len(own_ub) == D
        except Exception:
            eq = False
        r.update({"bounds_raised": not ok and False, "lbs": lbs if ok else [], "ubs": ubs if ok else [], "bounds_eq_own": bool(eq)})
    except Exception as ex:
        r.update({"bounds_raised": True, "lbs": [], "ubs": [], "bounds_eq_own": False, "bounds_exception": type(ex).__name__})
    # random solution
    e = seeded(task.empty_solution, 7)
    r["empty_len"] = len(e)
    r["empty_in"] = len(e) == D and all(is_perm(d["n"], v) if d["t"] == "perm" else member_scalar(d, v) for d, v in zip(defs, e))
    # correction of a probe position
    x = [perm_pat(c["pat"], d["n"]) if d["t"] == "perm" else PAT[c["pat"]](i + 1) for i, d in enumerate(defs)]
    r["x"] = x
    xv = [[float(q) for q in v] if d["t"] == "perm" else dec(v) for d, v in zip(defs, x)]
    # "correction acts coordinate-wise with the owning variable's rule": compare with the variables' own correct(),
    # for a list and for a numpy array argument, non-finite coordinates included
    own = None
    try:
        fv = task.get_variables()
        own = [v_.correct(q) for v_, q in zip(fv, xv)]
    except Exception:
        own = None
    r["correct_eq_own"] = True
    if own is not None:
        for arg in (xv, (np.array(xv, dtype=float) if all(d["t"] != "perm" for d in defs) else None)):
            if arg is None:
                continue
            try:
                got = task.correct_solution(arg)
                if repr(list(got)) != repr(own):
                    r["correct_eq_own"] = False
            except Exception:
                r["correct_eq_own"] = False
    y = None
    try:
        y = task.correct_solution(xv)
        y2 = task.correct_solution(y)
        r.update({"correct_raised": False, "y": [enc_coord(d, v) for d, v in zip(defs, y)] if len(y) == D else [],
                  "y2": [enc_coord(d, v) for d, v in zip(defs, y2)] if len(y2) == D else []})
    except Exception as ex:
        r.update({"correct_raised": True, "y": [], "y2": [], "correct_exception": type(ex).__name__})
    # transform
    r.update({"tr_raised": False, "keys_ok": False, "tr": []})
    if y is not None and c["pat"] != "nan":
        try:
            tr = task.transform_solution(y)
            r["keys_ok"] = list(tr.keys()) == names
            ent = []
            for d, nm in zip(vars_, names):
                v = tr.get(nm)
                kids = kid_defs(d)
                if d["t"] == "perm":
                    base = task.variables[names.index(nm)].decode(list(range(d["n"])))
                    ent.append({"aslist": isinstance(v, list), "entry": [[base.index(q) if q in base else OFF for q in v]] if isinstance(v, list) else [[]]})
                elif d["t"] in ("contmulti", "multiobj", "discmulti", "bin"):
                    if isinstance(v, list):
                        ent.append({"aslist": True, "entry": [label_index(kd, q, d["t"] == "bin") for kd, q in zip(kids, v)] if len(v) == len(kids) else []})
                    else:
                        ent.append({"aslist": False, "entry": [label_index(kids[0], v, d["t"] == "bin")]})
                else:
                    ent.append({"aslist": isinstance(v, list), "entry": [label_index(d, v, False)]})
            r["tr"] = ent
        except Exception as ex:
            r.update({"tr_raised": True, "tr_exception": type(ex).__name__})
    return r


def bool_cases(m, rng: random.Random, n: int, start_id: int) -> list[dict]:
    """off-grid scalar cases, projected to Booleans"""
    out = []
    for _ in range(n):
        rid = start_id + len(out)
        if rng.random() < 0.6:
            lb = rng.choice([-1e6, -3.5, -1e-3, 0.0, 1e-300, 2.5]) * rng.choice([1, 1, 3])
            ub = lb + rng.choice([1e-12, 1e-3, 1.0, 7.25, 1e6, 1e300])
            if not ub > lb:
                continue
            var = m.ContinuousVariable(name="v", lower_bound=lb, upper_bound=ub)
            v = rng.choice([lb, ub, np.nextafter(lb, -np.inf), np.nextafter(ub, np.inf), np.nextafter(lb, np.inf),
                            (lb + ub) / 2 if math.isfinite(lb + ub) else lb, 5e-324, -5e-324, 1.7e308, -1.7e308,
                            np.float32(lb), np.float64(ub), np.int64(3), 7, -0.0, rng.uniform(-10, 10), True])
            inn = lambda z: is_float(z) and lb <= z <= ub
            kind = "cont"
        else:
            nn = rng.randint(1, 9)
            var = m.DiscreteVariable(name="d", choices=list(range(100, 100 + nn)))
            v = rng.choice([0, nn - 1, nn, -1, nn - 1 + 0.999999, 0.5, -0.5, -0.0, np.int64(nn // 2), np.float64(nn - 1),
                            np.float32(0.25), 1e300, -1e300, 2 ** 40, rng.uniform(-2, nn + 2), np.int8(1), 1e-320])
            inn = lambda z: is_int(z) and 0 <= z <= nn - 1
            kind = "disc"
        try:
            o = var.correct(v)
            o2 = var.correct(o)
            rec = {"out_in": bool(inn(o)), "out_eq_v": bool(o == v), "idem": bool(o2 == o and type(o2) is type(o)),
                   "typeok": is_float(o) if kind == "cont" else is_int(o)}
        except Exception:
            rec = {"out_in": False, "out_eq_v": False, "idem": False, "typeok": False}
        vin = bool(lb <= float(v) <= ub) if kind == "cont" else bool(float(v).is_integer() and 0 <= float(v) <= nn - 1)
        out.append({"id": rid, "kind": "bool", "t": kind, "finite": True, "v_in": vin, "vrepr": repr(v),
                    "vtype": type(v).__name__, **rec})
    return out


def explore(chk: Check):
    """Runs M, G, V for C13+C14; returns (records, bad)"""
    m = _models()
    thorough = chk.tier == "thorough"
    cfg = "Domain_mc_thorough.cfg" if thorough else "Domain_mc.cfg"
    dump = WORK / f"domain-{os.getpid()}.dump"
    res = tlc.run("Domain.tla", cfg, workers=16, timeout=3000, extra=["-dump", str(dump)])
    chk.model(cfg, res, note="intended functional refinements satisfy every law of DomainRel on the whole bounded space")
    for dev, law in DEVS:
        chk.model(dev, tlc.run("Domain.tla", dev, workers=8, timeout=600), expect=law, note="named deviation")
    states = tlaval.parse_dump(dump)
    dump.unlink(missing_ok=True)
    cases = [s["c"] for s in states if s["c"]["kind"] != "pre"]
    if len(cases) < 1000:
        chk.machinery.append(f"only {len(cases)} cases recovered from the TLC dump")
    records = [run_case(m, c, k + 1) for k, c in enumerate(cases)]
    rng = random.Random(chk.seed)
    records += bool_cases(m, rng, 6000 if thorough else 1500, len(records) + 1)
    bad, st, consumed = judge("TraceDomain.tla", "TraceDomain.cfg", records, "c13")
    chk.states += st
    chk.transitions += st
    chk.traces = consumed
    chk.evaluations = len(records)
    chk.extra["cases_from_tlc"] = len(cases)
    return records, bad


def vtype(r):
    if r["kind"] in ("cont", "disc"):
        return r["def"]["t"]
    if r["kind"] in ("multi", "ctor"):
        return r["def"]["t"]
    if r["kind"] == "task":
        return "+".join(d["t"] + (str(len(d["kids"])) if d["kids"] else "") for d in r["vars"])
    return r.get("t", r["kind"])


def vclass(r):
    if r["kind"] in ("cont", "disc"):
        v, d = r["v"], r["def"]
        if v in (NAN, PINF, NINF, PHUGE, NHUGE):
            return str(v)
        lo, hi = (d["lb"], d["ub"]) if d["t"] == "cont" else (0, 2 * (d["n"] - 1))
        return "lt" if v < lo else "gt" if v > hi else "lb" if v == lo else "ub" if v == hi else ("in" if v % 2 == 0 else "frac")
    if r["kind"] == "task":
        return r["pat"]
    if r["kind"] == "perm":
        return ("member" if sorted(r["v"]) == [2 * k for k in range(r["n"])] else "ties" if len(set(r["v"])) < r["n"]
                else "fractional" if any(x % 2 for x in r["v"]) else "nonmember")
    if r["kind"] == "ctor":
        return "raised" if r["raised"] else "accepted"
    if r["kind"] == "bool":
        return r["vtype"]
    return "-"


def key_of(r, clause):
    k = {"type": vtype(r)}
    if r["kind"] in ("cont", "disc", "bool"):
        k["value"] = vclass(r)
    if r["kind"] == "ctor":
        k["def"] = json.dumps({"t": r["def"]["t"], "kids": len(r["def"]["kids"]), "n": r["def"]["n"], "mismatch": r["mismatch"]}, sort_keys=True) if r["def"]["t"] != "cont" else "cont"
    if r["kind"] == "task":
        # identify WHAT fails by the structure of the variable list (root cause class), never by the pattern
        ts = [d["t"] for d in r["vars"]]
        size1 = any(d["kids"] and len(d["kids"]) == 1 for d in r["vars"])
        if "perm" in ts and len(ts) > 1:
            k["type"] = "permutation variable mixed with other variables"
        elif clause == "C14.bounds" and "discmulti" in ts:
            k["type"] = "task containing a discmulti variable"
        elif clause == "C14.transform" and size1:
            k["type"] = "task containing a size-1 multi-variable"
        else:
            k["type"] = "+".join(sorted(set(ts)))
        exc = {"C14.bounds": "bounds_exception", "C14.transform": "tr_exception", "C14.correct": "correct_exception"}.get(clause)
        if exc and exc in r:
            k["exception"] = r[exc]
    return k


def main_for(chk: Check, prefix: str):
    records, bad = explore(chk)
    byid = {r["id"]: r for r in records}
    mine = [(i, cl) for i, cl in bad if cl.startswith(prefix)]
    for rid, clause in mine:
        r = byid[rid]
        chk.violation(clause, key_of(r, clause), {"record": r})
    kinds = ("task",) if prefix == "C14" else ("cont", "disc", "perm", "multi", "ctor", "bool")
    n = 0
    for r in records:
        if r["kind"] in kinds:
            n += 1
            chk.distinct.add((r["kind"], vtype(r), vclass(r)))
    chk.evaluations = n
    for r in records:
        if r["kind"] in kinds and len(chk.samples) < 3 and r["id"] % 97 == 0:
            chk.sample(r)
    # canaries
    flagged = {i for i, _ in bad}
    can, want = [], {}
    for r in records:
        if r["id"] in flagged or len(can) >= 12:
            continue
        c = json.loads(json.dumps(r))
        if prefix == "C13" and r["kind"] == "cont" and r["v"] not in (NAN, PINF, NINF) and sum(1 for w in want.values() if w == "C13.correct.domain") < 3:
            c["out"] = r["def"]["ub"] + 1; c["out2"] = c["out"]; cl = "C13.correct.domain"
        elif prefix == "C13" and r["kind"] == "perm" and r["n"] >= 3 and sum(1 for w in want.values() if w == "C13.perm.idempotent") < 3:
            c["out2"] = list(reversed(r["out"])) if list(reversed(r["out"])) != r["out"] else r["out"][1:] + r["out"][:1]; cl = "C13.perm.idempotent"
        elif prefix == "C13" and r["kind"] == "ctor" and sum(1 for w in want.values() if w == "C13.ctor") < 3:
            c["raised"] = not r["raised"]; cl = "C13.ctor"
        elif prefix == "C14" and r["kind"] == "task" and sum(1 for w in want.values() if w == "C14.dim") < 3:
            c["dim"] = r["dim"] + 1; cl = "C14.dim"
        elif prefix == "C14" and r["kind"] == "task" and r["tr"] and r["pat"] != "nan" and sum(1 for w in want.values() if w == "C14.transform") < 3:
            c["tr"] = list(reversed(r["tr"])) if len(r["tr"]) > 1 and r["tr"][0] != r["tr"][-1] else r["tr"][:-1]; cl = "C14.transform"
        elif prefix == "C14" and r["kind"] == "task" and r["lbs"] and sum(1 for w in want.values() if w == "C14.bounds") < 3 \
                and any(d["t"] != "perm" for d in flat_defs(r["vars"])):
            k = next(j for j, d in enumerate(flat_defs(r["vars"])) if d["t"] != "perm")
            c["lbs"][k] = r["lbs"][k] - 2; cl = "C14.bounds"
        else:
            continue
        c["id"] = len(can) + 1
        can.append(c)
        want[c["id"]] = cl
    cbad, _, _ = judge("TraceDomain.tla", "TraceDomain.cfg", can, "c13-canary")
    for i, cl in want.items():
        chk.canary(f"{cl}#{i}", (i, cl) in set(cbad), "corrupted answer of a real models.py call")
    chk.assumptions += [
        "values are half-integers (x2 encoding) plus sentinels for nan, +-inf, +-1e300; off-grid floats go through a Boolean projection computed by the harness",
        "membership oracle is the harness's own (type + range), never Task.is_valid_solution",
        "NaN and +-inf inputs are outside 'every finite input' and only constrain the finite coordinates next to them",
    ]


def main(chk: Check):
    main_for(chk, "C13")
