"""C19 — HyperTuner evaluates the whole grid and selects the best parameters.

(M) HyperTuner.tla: ParameterGrid laws (len / iteration / indexing / out of range) for all grids of 1..2 sub-grids with
    0..3 keys and 1..3 values, and the selection rule for all score tables (<= 3 points x 2 trials, 3-letter alphabet,
    both directions); deviations: ranking inverted twice for max tasks, indexing off by one.
(G) every grid / table TLC enumerated (state dump) is given to the REAL ParameterGrid / HyperTuner; the tuner drives a
    scripted optimizer whose best cost is read from the table (trial slots claimed through O_EXCL files, since the trials
    run in the tuner's process pool).
(V) TraceTuner.tla judges len/iter/index, which parameters every call saw, optimality of best_parameters, best_score and
    what resolve() ran with.
"""
from __future__ import annotations

import concurrent.futures as cf
import contextlib
import io
import json
import os
import random
import shutil
import tempfile
import warnings

from . import tlc, tlaval
from .common import Check, WORK
from .judge import judge

RULE = ("cases = every grid and every score table of HyperTuner.tla's bounded space (from the TLC dump), fed to the real "
        "ParameterGrid / HyperTuner (+ seeded larger tables in thorough); distinct = (kind, grid shape or (points, trials, "
        "direction, has tie in the optimal mean))")
KEYS = ["Kb", "ka", "kc"]        # in plain sorted order; a case-insensitive sort would order them ka, Kb, kc


def grid_to_param(grid):
    """spec grid (value counts per sorted key) -> param_grid for the real class; values are distinct small ints"""
    subs = []
    for sub in grid:
        subs.append({KEYS[j]: [10 * (j + 1) + v for v in range(1, n + 1)] for j, n in enumerate(sub)})
    return subs


def point_to_idx(grid, params: dict):
    """real point -> candidates <<sub index, value indexes>> (first matching sub-grid by key set)"""
    out = []
    for g, sub in enumerate(grid):
        if sorted(params.keys()) == KEYS[:len(sub)]:
            idx = [params[KEYS[j]] - 10 * (j + 1) for j in range(len(sub))]
            if all(1 <= v <= sub[j] for j, v in enumerate(idx)):
                out.append([g + 1, idx])
    return out


def grid_case(grid) -> dict:
    from pyvolutionary.hypertuner import ParameterGrid
    pg_param = grid_to_param(grid)
    pg = ParameterGrid(pg_param if len(pg_param) > 1 else pg_param[0])
    pts = list(pg)
    # a point may belong to several sub-grids with the same key set: resolve by position in iteration order
    seq = []
    offs = 0
    bounds = []
    for sub in grid:
        n = 1
        for v in sub:
            n *= v
        bounds.append((offs, offs + n))
        offs += n

    def locate(k, params):
        for g, (a, b) in enumerate(bounds):
            if a <= k < b:
                sub = grid[g]
                if sorted(params.keys()) != KEYS[:len(sub)]:
                    return [0, []]
                return [g + 1, [params[KEYS[j]] - 10 * (j + 1) for j in range(len(sub))]]
        return [0, []]
    seq = [locate(k, p) for k, p in enumerate(pts)]
    at = []
    for k in range(len(pg)):
        try:
            at.append(locate(k, pg[k]))
        except Exception:
            at.append([0, []])
    try:
        pg[len(pg)]
        oob = False
    except IndexError:
        oob = True
    except Exception:
        oob = False
    return {"kind": "grid", "grid": [list(s) for s in grid], "len": len(pg), "seq": seq, "at": at, "oob": oob}


def tuner_case(args) -> dict:
    scores, direction, shape, n_jobs, mode = args
    from .scripted import DriverOpt, DriverTask, point_key
    from pyvolutionary import HyperTuner, ContinuousVariable
    np_, nt = len(scores), len(scores[0])
    # a grid with exactly np_ points: shape = list of sub-grids (value counts)
    grid = shape
    pg_param = grid_to_param(grid)
    from pyvolutionary.hypertuner import ParameterGrid
    pts = list(ParameterGrid(pg_param if len(pg_param) > 1 else pg_param[0]))
    assert len(pts) == np_, (shape, np_)
    d = tempfile.mkdtemp(prefix="tuner-", dir=str(WORK / "tmp"))
    table = {point_key(p): list(scores[k]) for k, p in enumerate(pts)}
    task = DriverTask(variables=[ContinuousVariable(name="x", lower_bound=0.0, upper_bound=1.0)], minmax=direction,
                      data={"dir": d, "table": table})
    rec = {"kind": "tuner", "scores": [list(s) for s in scores], "dir": direction, "nt": nt, "grid": grid, "n_jobs": n_jobs,
           "raised": False, "calls": [], "best": 1, "score_ok": False, "resolve": 0, "again_ok": True}
    try:
        with contextlib.redirect_stdout(io.StringIO()), warnings.catch_warnings():
            warnings.simplefilter("ignore")
            tuner = HyperTuner(DriverOpt(), pg_param if len(pg_param) > 1 else pg_param[0])
            tuner.execute(task=task, n_trials=nt, n_jobs=n_jobs, mode=mode)
            calls = [json.loads(ln) for ln in open(os.path.join(d, "calls.ndjson"))]
            keys = [point_key(p) for p in pts]
            rec["calls"] = [keys.index(c["key"]) + 1 if c["key"] in keys else 0 for c in calls]
            bk = point_key(tuner.best_parameters)
            rec["best"] = keys.index(bk) + 1 if bk in keys else 0
            mean = sum(scores[rec["best"] - 1]) / nt if rec["best"] else float("nan")
            rec["score_ok"] = bool(abs(float(tuner.best_score) - mean) <= 1e-12 * max(1.0, abs(mean)))
            n0 = len(calls)
            tuner.resolve()
            calls = [json.loads(ln) for ln in open(os.path.join(d, "calls.ndjson"))]
            rk = calls[n0]["key"] if len(calls) == n0 + 1 else None
            rec["resolve"] = keys.index(rk) + 1 if rk in keys else 0
            # the same tuner used again on another task (scores rotated by one point): its answer must be about THIS task
            rec["again_ok"] = True
            if np_ >= 2:
                d2 = tempfile.mkdtemp(prefix="tuner2-", dir=str(WORK / "tmp"))
                try:
                    rot = [list(scores[(k + 1) % np_]) for k in range(np_)]
                    task2 = DriverTask(variables=[ContinuousVariable(name="x", lower_bound=0.0, upper_bound=1.0)], minmax=direction,
                                       data={"dir": d2, "table": {point_key(p): rot[k] for k, p in enumerate(pts)}})
                    tuner.execute(task=task2, n_trials=nt, n_jobs=n_jobs, mode=mode)
                    b2 = point_key(tuner.best_parameters)
                    i2 = keys.index(b2) if b2 in keys else -1
                    sums = [sum(x) for x in rot]
                    opt = min(sums) if direction == "min" else max(sums)
                    mean2 = sums[i2] / nt if i2 >= 0 else float("nan")
                    rec["again_ok"] = bool(i2 >= 0 and sums[i2] == opt and abs(float(tuner.best_score) - mean2) <= 1e-12 * max(1.0, abs(mean2)))
                finally:
                    shutil.rmtree(d2, ignore_errors=True)
    except Exception as ex:
        rec["raised"] = True
        rec["exception"] = f"{type(ex).__name__}: {str(ex)[:200]}"
    finally:
        shutil.rmtree(d, ignore_errors=True)
    return rec


# grids with exactly 1 / 2 / 3 distinct points; several are LISTS of sub-grids whose later sub-grid lacks a key of an earlier
# one (a point must be evaluated with exactly its own parameters, defaults for the keys it omits)
SHAPES = {1: [[[1]], [[]]],
          2: [[[2]], [[1, 2]], [[], [1]], [[1], []], [[1, 1], [1]]],
          3: [[[3]], [[1], [2, 1]], [[3, 1]], [[2, 1], [1]], [[1, 1], [], [1]], [[1, 1, 1], [1, 1], [1]]]}


def main(chk: Check):
    thorough = chk.tier == "thorough"
    dump = WORK / f"tuner-{os.getpid()}.dump"
    if thorough:
        chk.model("HyperTuner_mc_thorough.cfg", tlc.run("HyperTuner.tla", "HyperTuner_mc_thorough.cfg", workers=16, timeout=3600),
                  note="grids of up to 3 sub-grids, tables of up to 4 points")
    res = tlc.run("HyperTuner.tla", "HyperTuner_mc.cfg", workers=16, timeout=1800, extra=["-dump", str(dump)])
    chk.model("HyperTuner_mc.cfg", res, note="LawLen, LawIndex, LawOutOfRange, LawDistinct, LawSelect over all grids / tables")
    for cfg, law in (("HyperTuner_doubleinvert.cfg", "LawSelect"), ("HyperTuner_offbyone.cfg", "LawIndex")):
        chk.model(cfg, tlc.run("HyperTuner.tla", cfg, workers=4, timeout=600), expect=law, note="named deviation")
    chk.model("TunerMachine_mc.cfg", tlc.run("TunerMachine.tla", "TunerMachine_mc.cfg", workers=4, timeout=300),
              note="execute/resolve as a machine: EveryPointOncePerTrial, RunSawItsPoint, ResolveUsesBest, Finishes")
    for cfg, law in (("TunerMachine_stale.cfg", "RunSawItsPoint"), ("TunerMachine_skip.cfg", "EveryPointOncePerTrial"),
                     ("TunerMachine_accumulate.cfg", "RunSawItsPoint"), ("TunerMachine_resolvelast.cfg", "ResolveUsesBest")):
        chk.model(cfg, tlc.run("TunerMachine.tla", cfg, workers=2, timeout=300), expect=law, note="named deviation")
    states = tlaval.parse_dump(dump)
    dump.unlink(missing_ok=True)
    grids = [s["c"]["grid"] for s in states if s["c"]["kind"] == "grid"]
    tables = [(s["c"]["scores"], s["c"]["dir"]) for s in states if s["c"]["kind"] == "table"]
    if len(grids) < 100 or len(tables) < 100:
        chk.machinery.append(f"dump gave {len(grids)} grids and {len(tables)} tables")
    (WORK / "tmp").mkdir(parents=True, exist_ok=True)
    rng = random.Random(chk.seed)
    records = [grid_case(g) for g in grids]
    jobs = []
    sel = tables if thorough else rng.sample(tables, min(len(tables), 260))
    for sc, d in sel:
        shape = rng.choice(SHAPES[len(sc)])
        jobs.append((sc, d, shape, rng.choice([1, 2, 4]), "serial"))
    if thorough:
        for _ in range(200):
            np_, nt = rng.randint(2, 3), rng.randint(1, 4)
            sc = [[rng.choice([-3, 0, 1, 2, 7]) for _ in range(nt)] for _ in range(np_)]
            jobs.append((sc, rng.choice(["min", "max"]), rng.choice(SHAPES[np_]), rng.choice([2, 3]), rng.choice(["serial", "thread"])))
    with cf.ProcessPoolExecutor(12) as ex:           # non-daemonic: the tuner starts its own process pools
        records += list(ex.map(tuner_case, jobs, chunksize=4))
    for k, r in enumerate(records):
        r["id"] = k + 1
    bad, st, consumed = judge("TraceTuner.tla", "TraceTuner.cfg", records, "c19", jobs=8, per_batch=500)
    chk.states += st
    chk.transitions += st
    chk.traces = consumed
    chk.evaluations = len(records)
    byid = {r["id"]: r for r in records}
    for rid, clause in bad:
        r = byid[rid]
        key = {"kind": r["kind"]}
        if r["kind"] == "tuner":
            key["dir"] = r["dir"]
            key["trials"] = "1" if r["nt"] == 1 else ">1"
            if clause == "C19.crash":
                key["exception"] = r.get("exception", "").split(":")[0]
        chk.violation(clause, key, {"record": r})
    for r in records:
        if r["kind"] == "grid":
            chk.distinct.add(("grid", json.dumps(r["grid"])))
        else:
            sums = sorted(sum(s) for s in r["scores"])
            tie = len(sums) > 1 and ((sums[0] == sums[1]) if r["dir"] == "min" else (sums[-1] == sums[-2]))
            chk.distinct.add(("tuner", len(r["scores"]), r["nt"], r["dir"], tie, json.dumps(r["scores"])))
    chk.sample(records[len(grids) // 2])
    chk.sample(records[-1])
    clean = [r for r in records if r["id"] not in {i for i, _ in bad}]
    can, want = [], {}
    for r in clean:
        c = json.loads(json.dumps(r))
        if r["kind"] == "tuner" and len(r["scores"]) >= 2 and len({sum(s) for s in r["scores"]}) > 1 and sum(1 for w in want.values() if w == "C19.optimal") < 3:
            sums = [sum(s) for s in r["scores"]]
            worst = sums.index(max(sums) if r["dir"] == "min" else min(sums)) + 1
            c["best"] = worst; c["resolve"] = worst
            cl = "C19.optimal"
        elif r["kind"] == "tuner" and len(r["scores"]) >= 2 and sum(1 for w in want.values() if w == "C19.every_point") < 3:
            c["calls"] = [c["calls"][0]] * len(c["calls"])
            cl = "C19.every_point"
        elif r["kind"] == "grid" and r["len"] >= 3 and sum(1 for w in want.values() if w == "C19.grid.iter") < 3 and r["seq"][0] != r["seq"][1]:
            c["seq"][0], c["seq"][1] = c["seq"][1], c["seq"][0]
            cl = "C19.grid.iter"
        else:
            continue
        c["id"] = len(can) + 1
        can.append(c)
        want[c["id"]] = cl
    cbad, _, _ = judge("TraceTuner.tla", "TraceTuner.cfg", can, "c19-canary", jobs=1)
    for i, cl in want.items():
        chk.canary(f"{cl}#{i}", (i, cl) in set(cbad), "altered answer of the real ParameterGrid / HyperTuner")
    chk.extra["grids_from_tlc"] = len(grids)
    chk.extra["tables_from_tlc"] = len(tables)
    chk.extra["tuner_runs"] = len(jobs)
    chk.assumptions += ["the scripted optimizer's best cost is table[point][claimed slot]; which trial gets which slot is free "
                        "(trials run concurrently in the tuner's pool), the mean over the trials is not",
                        "best_score is compared with the mean within 1e-12 (numeric leaf)"]
