"""C04 — optimize() terminates exactly when the first configured stop criterion holds.

(M) StopRule.tla: the code-shaped stop machine against the declarative rule, all rate histories up to the bound,
    liveness under weak fairness, six named deviations that must fail.
(G) every terminal state TLC reached (config + rate history) is replayed into the real optimize() through a
    scripted optimizer whose rates are bit-exact dyadic numbers.
(V) what the real loop did (steps, generations, rates) is judged by TLC (TraceStop.tla) with the declarative rule;
    plus seeded off-grid float histories judged through the Boolean projection.
"""
from __future__ import annotations

import math
import os
import random

from . import tlc, tlaval
from .common import Check, WORK
from .judge import judge

RULE = ("cases = every terminal state (max_cycles, fitness_error, early_stopping, rate history) of StopRule.tla's bounded "
        "space, replayed into the real optimize(); plus seeded float histories; distinct = (config, stop cycle, "
        "which criteria held at the stop cycle)")
DEVS = [("StopRule_gt.cfg", "NoLate"), ("StopRule_lt.cfg", "NoLate"), ("StopRule_window1.cfg", "Exact"),
        ("StopRule_noreset.cfg", "NoLate"), ("StopRule_nodummy.cfg", "Exact")]


def project(mc, fe, es, rates, steps, gens, fits, rid, kind, script=None, fe_l=None, es_l=None):
    """alpha: observed floats -> Booleans the spec speaks about."""
    lefe = [fe is not None and r <= fe for r in rates]
    dec = [False] + [es is not None and (rates[j] - rates[j - 1] < 0 and abs(rates[j] - rates[j - 1]) < es[1])
                     for j in range(1, len(rates))]
    rate_ok = len(fits) == len(rates) + 1
    for j, r in enumerate(rates):
        if j + 1 < len(fits):
            want = abs(1 - math.fsum(fits[j + 1]) / len(fits[j + 1]))
            rate_ok = rate_ok and abs(want - r) <= 1e-12 * max(1.0, abs(want))
    rec = {"id": rid, "kind": kind, "mc": mc, "hasFe": fe is not None, "hasEs": es is not None,
           "pat": es[0] if es else 1, "lefe": lefe, "dec": dec, "steps": steps, "gens": gens, "nrates": len(rates),
           "rate_ok": rate_ok}
    if kind == "grid":
        obs = [int(r * 8) if float(r * 8).is_integer() else -7 for r in rates]
        rec.update({"script": script, "obs": obs, "fe": fe_l, "es": es_l})
    return rec


def main(chk: Check) -> None:
    from .scripted import run_script
    thorough = chk.tier == "thorough"
    cfg = "StopRule_mc_thorough.cfg" if thorough else "StopRule_mc.cfg"
    dump = WORK / f"stop-{os.getpid()}.dump"
    res = tlc.run("StopRule.tla", cfg, workers=16, timeout=3000, extra=["-dump", str(dump)])
    chk.model(cfg, res, note="Exact, NoLate, Bounded, EvoLen, CycleIsStep + liveness Terminates/EachRunTerminates under WF")
    for dev, law in DEVS:
        chk.model(dev, tlc.run("StopRule.tla", dev, workers=8, timeout=600), expect=law, note="named deviation")
    states = tlaval.parse_dump(dump)
    dump.unlink(missing_ok=True)
    seen, cases = set(), []
    for s in states:
        if s["pc"] == "done":
            key = (s["mc"], s["fe"], tuple(s["es"]), tuple(s["rates"][-s["steps"]:]))
            if key not in seen and s["run"] == 1:
                seen.add(key)
                cases.append(key)
    if len(cases) < 100:
        chk.machinery.append(f"only {len(cases)} terminal behaviours recovered from the dump")
    records = []
    rng = random.Random(chk.seed)
    for mc, fe, es, rates in cases:
        fe_f = None if fe == -1 else fe / 8
        es_f = None if es[0] == 0 else (es[0], es[1] / 8)
        # the script continues after the model's stop cycle so that a late stop is observable
        script = list(rates) + [rng.randint(0, 3) for _ in range(mc + 2 - len(rates))]
        steps, gens, obs, fits = run_script(mc, fe_f, es_f, [x / 8 for x in script])
        records.append(project(mc, fe_f, es_f, obs, steps, gens, fits, len(records) + 1, "grid",
                               script=script, fe_l=fe, es_l=list(es)))
    ngrid = len(records)
    # off-grid float histories (seeded): arbitrary rates, thresholds placed near the rates
    nfloat = 6000 if thorough else 2000
    for _ in range(nfloat):
        mc = rng.randint(1, 12)
        rates = []
        r = rng.uniform(0.0, 3.0)
        for _j in range(mc + 2):
            r = max(0.0, r + rng.choice([-1, -1, 1]) * rng.choice([1e-9, 1e-5, 1e-3, 0.05, 0.5]) * rng.random())
            rates.append(r)
        fe = rng.choice([None, rng.choice(rates), rng.choice(rates) * (1 + rng.choice([-1e-9, 0, 1e-9])), 0.0, 10.0])
        es = rng.choice([None, (rng.randint(1, 4), rng.choice([1e-9, 1e-5, 1e-3, 0.05, 0.5, 0.0, -1.0]))])
        steps, gens, obs, fits = run_script(mc, fe, es, rates, pop=rng.randint(1, 4))
        records.append(project(mc, fe, es, obs, steps, gens, fits, len(records) + 1, "float"))
    chk.evaluations = len(records)
    bad, st, consumed = judge("TraceStop.tla", "TraceStop.cfg", records, "c04")
    chk.states += st
    chk.transitions += st
    chk.traces = consumed
    byid = {r["id"]: r for r in records}
    for rid, clause in bad:
        r = byid[rid]
        chk.violation(clause, {"driver": "scripted", "kind": r["kind"], "hasFe": r["hasFe"], "hasEs": r["hasEs"]}, {"record": r})
    for r in records:
        j = r["steps"]
        held = (j >= r["mc"], bool(r["hasFe"] and j <= len(r["lefe"]) and j >= 1 and r["lefe"][j - 1]), r["hasEs"], r["pat"])
        chk.distinct.add((r["kind"], r["mc"] if r["kind"] == "grid" else min(r["mc"], 6), j if j < 7 else 7, held))
    chk.sample(records[ngrid // 2])
    chk.sample(records[-1])
    # canaries
    import json
    can, want = [], {}
    flagged = {rid for rid, _ in bad}
    for r in records:
        if r["id"] in flagged:
            continue
        if r["steps"] >= 2 and len(can) < 4:
            c = json.loads(json.dumps(r)); c["id"] = len(can) + 1; c["steps"] -= 1; c["gens"] -= 1; c["nrates"] -= 1
            if c["kind"] == "grid":
                c["obs"] = c["obs"][:-1]
            can.append(c); want[c["id"]] = "C04.early"
        elif r["steps"] < r["mc"] and 4 <= len(can) < 8:
            c = json.loads(json.dumps(r)); c["id"] = len(can) + 1; c["steps"] += 1; c["gens"] += 1; c["nrates"] += 1
            c["lefe"].append(False); c["dec"].append(False)
            can.append(c); want[c["id"]] = "C04.late"
        elif 8 <= len(can) < 10:
            c = json.loads(json.dumps(r)); c["id"] = len(can) + 1; c["gens"] += 1
            can.append(c); want[c["id"]] = "C04.len"
    cbad, _, _ = judge("TraceStop.tla", "TraceStop.cfg", can, "c04-canary")
    for i, cl in want.items():
        chk.canary(f"{cl}#{i}", (i, cl) in set(cbad), "shifted stop cycle / generation count of a real run")
    # the same rule on real optimizers: C04.* verdicts of the run corpus (TracePop.tla embeds StopRel)
    from . import corpus as _corpus, popchecks as _pc
    v = _corpus.corpus(chk.tier, chk.seed)
    crecs = {r["id"]: r for r in v["records"]}
    for rid, clause in v["bad"]:
        if clause.startswith("C04."):
            chk.violation(clause, {"driver": "corpus", "optimizer": crecs[rid]["opt"]}, {"run": crecs[rid]["spec"]})
    done = [r for r in v["records"] if r["completed"]]
    chk.traces += len(done)
    chk.states += v["states"]
    chk.evaluations += len(done)
    for r in done:
        chk.distinct.add(("corpus", r["opt"], r["hasFe"], r["hasEs"], "max" if r["steps"] >= r["mc"] else "early"))
    chk.extra["corpus_runs_judged"] = len(done)
    chk.extra["corpus_runs_stopped_early"] = sum(1 for r in done if r["steps"] < r["mc"])
    chk.extra["terminal_behaviours_from_tlc"] = ngrid
    chk.extra["float_histories"] = nfloat
    chk.assumptions += [
        "rates on the grid are eighths, bit-exact in binary floating point; off-grid histories are projected to Booleans "
        "(rate <= fitness_error; change is a decrease smaller than min_delta) from the floats the code itself reports",
        "rate = |1 - mean fitness| is recomputed by the harness with math.fsum and relative tolerance 1e-12 (numeric leaf)",
        "real optimizers' stop behaviour is additionally judged on the run corpus (see C01..C03 evidence: clause C04.*)",
    ]
