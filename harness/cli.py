"""./check <ID> [--tier quick|thorough] [--replay file]   exit 0 held / 1 violation / 2 machinery failure"""
from __future__ import annotations

import argparse
import importlib
import json
import os
import sys
import traceback

from .common import Check
from .tlc import MachineryError

# property -> (module, rule text, exhaustive?)
POP_RULE = ("runs = generated (optimizer, task, configuration, seed, mode) tuples over all 84 optimizers: continuous / "
            "multi-objective / discrete / binary / mixed / permutation tasks, 8 bound regimes, min and max, population 1x..3x the "
            "documented scale, cycle budgets 1..5, all stop criteria, serial/thread/process; every run replayed by TLC "
            "(TracePop.tla); distinct = (optimizer, encoding, mode, direction, stop reason)")
INST = {"C07", "C08", "C18"}
POP = {"C01", "C02", "C03", "C05", "C06", "C09", "C10", "C15", "C17"}
TABLE = {
    "C20": ("c20", "", None),
    "C19": ("c19", "", None),
    "C11": ("c11", "", None),
    "C12": ("c12", "", None),
    "C13": ("c13", "", None),
    "C14": ("c14", "", None),
    "C04": ("c04", "", None),
    "C16": ("c16", "cases = every state of Select.tla's bounded space (dumped by TLC) + seeded larger populations; "
                   "distinct = (family, sizes, n, direction, has ties, has infinities)", None),
}


def main(argv=None) -> int:
    ap = argparse.ArgumentParser()
    ap.add_argument("pid")
    ap.add_argument("--tier", default=os.environ.get("VERIF_TIER") or "quick", choices=["quick", "thorough"])
    ap.add_argument("--replay")
    a = ap.parse_args(argv)
    pid = a.pid.upper()
    if pid in POP:
        TABLE[pid] = ("popchecks", POP_RULE, None)
    if pid in INST:
        TABLE[pid] = ("instance", "", None)
    if pid not in TABLE:
        print(f"unknown property {pid}", file=sys.stderr)
        return 2
    seed = int(os.environ.get("VERIF_SEED") or 0)
    modname, rule, exhaustive = TABLE[pid]
    mod = importlib.import_module(f"harness.{modname}")
    # global watchdog: code under test that dead-locks must end as a machinery failure, not as a check that never returns
    import signal

    def _too_long(signum, frame):
        raise MachineryError(f"check {pid} exceeded its time budget (VERIF_CHECK_TIMEOUT); the code under test may be dead-locked")
    signal.signal(signal.SIGALRM, _too_long)
    signal.alarm(int(os.environ.get("VERIF_CHECK_TIMEOUT") or (4 * 3600 if a.tier == "thorough" else 3600)))
    chk = Check(pid, a.tier, seed, level=("exploration" if pid == "C06" else "model_checking"))
    from . import tlc as _tlc
    _tlc.COVERAGE = (a.tier == "thorough")
    try:
        if a.replay:
            from .common import WORK
            chk.evid_dir = WORK / "evidence-replay"
            rec = json.load(open(a.replay))
            if hasattr(mod, "replay"):
                mod.replay(chk, rec, pid) if pid in POP else mod.replay(chk, rec)
            else:
                print(f"replaying by re-running the {a.tier} check; recorded key: {rec.get('key')}")
                (mod.main_for(chk, pid) if pid in POP | INST else mod.main(chk))
        else:
            (mod.main_for(chk, pid) if pid in POP | INST else mod.main(chk))
    except MachineryError as ex:
        chk.machinery.append(str(ex)[:4000])
    except Exception:
        chk.machinery.append("harness exception:\n" + traceback.format_exc()[-4000:])
    return chk.finish(getattr(mod, "RULE", rule), getattr(mod, "EXPLANATION", ""), exhaustive)


if __name__ == "__main__":
    sys.exit(main())
