#!/venv/bin/python
"""Unit tests of the projection alpha (an unsound alpha would be a false-alarm / missed-alarm generator):
signed dense ranks preserve order, equality and negation; NaN and +-inf are split off before ranking;
membership classes agree with the definition; interning is equality preserving."""
import math, random, sys
from pathlib import Path
sys.path.insert(0, str(Path(__file__).resolve().parent.parent))
from harness.corpus import Ranker, NANTOK, _key
from harness import tasks as T

rng = random.Random(12345)
for trial in range(300):
    vals = [rng.choice([0.0, -0.0, 1.0, -1.0, 1e-300, -1e-300, 5e-324, 1e300, math.inf, -math.inf, math.nan, rng.uniform(-5, 5),
                        rng.uniform(-5, 5) * 1e-9, float(rng.randint(-3, 3))]) for _ in range(rng.randint(1, 40))]
    vals += [-v for v in vals if not math.isnan(v)]
    rk = Ranker()
    for v in vals:
        rk.add(v)
    rk.freeze()
    for a in vals:
        ra = rk.rk(a)
        if math.isnan(a):
            assert ra == NANTOK
            continue
        assert rk.rk(-a) == -ra, (a, ra)
        for b in vals:
            if math.isnan(b):
                continue
            rb = rk.rk(b)
            assert (a < b) == (ra < rb) and (a == b) == (ra == rb), (a, b, ra, rb)
# membership classes
k = {"k": "cont", "lb": -1.0, "ub": 2.0}
assert [T.classify(k, v) for v in (-1.0, 2.0, 0.5, -1.0000001, 2.0000001, math.nan, math.inf, -math.inf, "x", True)] == \
       [T.LB, T.UB, T.IN, T.LT, T.GT, T.CNAN, T.PINF, T.NINF, T.BADTYPE, T.BADTYPE]
d = {"k": "int", "n": 3}
import numpy as np
assert [T.classify(d, v) for v in (0, 2, 1, np.int64(1), 1.0, -1, 3, math.nan)] == [T.LB, T.UB, T.IN, T.IN, T.NONINT, T.LT, T.GT, T.CNAN]
p = {"k": "perm", "n": 3}
assert T.classify(p, [2, 0, 1]) == T.PERM_OK and T.classify(p, [2, 2, 1]) == T.PERM_BAD and T.classify(p, [0, 1]) == T.PERM_BAD \
    and T.classify(p, [0.0, 1.0, 2.0]) == T.PERM_BAD and T.classify(p, 3) == T.BADTYPE
assert T.classes_of([k, d], [0.0]) == [T.IN] and len(T.classes_of([k], [0.0, 1.0])) == 2        # wrong lengths stay visible
# interning distinguishes -0.0/0.0? (they are equal floats: same objective value, same membership) and ints from floats
assert _key([1.0, 2]) != _key([1, 2]) and _key([0.1 + 0.2]) != _key([0.3]) and _key([[1, 2]]) != _key([1, 2])
print("alpha self-test ok")
