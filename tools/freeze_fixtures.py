#!/venv/bin/python
"""Freeze the 'documented scale' configuration of every optimizer (the fixture of its test module) as data."""
import importlib, inspect, json, os, sys
sys.path.insert(0, "/repo")
import pyvolutionary
from pyvolutionary.abstract import OptimizationAbstract
out = {}
for f in sorted(os.listdir("/repo/tests/algorithms")):
    if not f.startswith("test_"):
        continue
    mod = importlib.import_module("tests.algorithms." + f[:-3])
    fx = mod.optimization_config
    fn = getattr(fx, "__wrapped__", None) or fx._get_wrapped_function()
    cfg = fn()
    opt = [v for n, v in vars(mod).items() if inspect.isclass(v) and issubclass(v, OptimizationAbstract) and v is not OptimizationAbstract]
    assert len(opt) == 1, (f, opt)
    out[opt[0].__name__] = {"config_class": type(cfg).__name__, "config": json.loads(cfg.model_dump_json()),
                            "module": opt[0].__module__}
assert len(out) == 84, len(out)
json.dump(out, open("/verif/harness/fixtures.json", "w"), indent=1, sort_keys=True)
print(len(out), "fixtures frozen")
