#!/venv/bin/python
"""(Re)builds /verif/known_findings.json from survey logs (tools/survey.py output) + the hand-written entries below.
Run by hand after a survey; the checks only ever READ the file."""
import json, re, subprocess, sys
from pathlib import Path
ROOT = Path(__file__).resolve().parent.parent
logs = sys.argv[1:]
crash, pairs = {}, {}
for lg in logs:
    for ln in open(lg):
        m = re.match(r"(\d+) (C06\.crash) (\{.*\})$", ln.strip())
        if m:
            k = json.loads(m.group(3))
            key = (k["optimizer"], k["exception"], k["function"])
            crash[key] = crash.get(key, 0) + int(m.group(1))
        m = re.match(r"(?:PAIR|RARE) (\w+) (\w+) (\d+)/(\d+) (.*)$", ln.strip())
        if m:
            k = (m.group(1), m.group(2))
            c0, n0, _ = pairs.get(k, (0, 0, ""))
            pairs[k] = (c0 + int(m.group(3)), n0 + int(m.group(4)), m.group(5))
HAND = [
  {"property": "C14",
   "match": {"clause": "C14.bounds", "type": "permutation variable mixed with other variables", "exception": "ValueError"},
   "what": "Task.get_bounds() raises ValueError (ragged array) when a PermutationVariable is listed together with any other variable: a permutation is one coordinate holding a list, its bounds are lists, and np.array() cannot stack them with scalar bounds; repairing it means redesigning the permutation encoding (not a small patch)"},
]
WHY = {
 "ZeroDivisionError": "division by zero in the update formula",
 "IndexError": "index out of range",
 "ValueError": "invalid value reached a numpy / helper call",
 "TypeError": "wrong operand type in the update formula",
}
findings = list(HAND)
helper_done = set()
for (opt, exc, fn), n in sorted(crash.items()):
    if fn.startswith("helpers."):
        if (exc, fn) in helper_done:
            continue
        helper_done.add((exc, fn))
        users = sorted({o for (o, e, f) in crash if e == exc and f == fn})
        findings.append({"property": "C06", "match": {"clause": "C06.crash", "exception": exc, "function": fn, "space": "continuous"},
                         "what": f"{exc} raised inside {fn} on valid continuous tasks (degenerate probabilities / empty group passed by the caller); seen from {', '.join(users)}"})
    else:
        findings.append({"property": "C06", "match": {"clause": "C06.crash", "optimizer": opt, "exception": exc, "function": fn, "space": "continuous"},
                         "what": f"{opt}: {exc} in {fn} on a valid continuous task with a valid configuration ({WHY.get(exc, 'internal error')}); input dependent (cycle budget 1, 1-D task, population not a multiple of a group size, degenerate costs)"})
for (opt, enc), (c, n, top) in sorted(pairs.items()):
    if c * 25 < n:
        continue        # below 4 %: too rare to ever look wholesale in 13 runs; not listed
    findings.append({"property": "C06", "match": {"clause": "C06.wholesale", "optimizer": opt, "space": enc},
                     "what": f"{opt} fails on {enc}-coded tasks in {c}/{n} surveyed runs ({top[:110]})" + (": the (optimizer, encoding) pair does not work on the pinned tree" if c * 2 >= n else ": input dependent, can reach half of a small sample")})
fixed = []
log = subprocess.run(["git", "-C", "/repo", "log", "--reverse", "--format=%h %s"], capture_output=True, text=True).stdout.splitlines()
PROP = [("seed", "C07"), ("cycle counter", "C08"), ("get_partner_index", "C07"), ("maximised multi-objective", "C06"), ("PermutationVariable", "C13"),
        ("multi-variables without", "C13"), ("float32", "C13"), ("DiscreteMultiVariable.get_bounds", "C14"), ("transform_solution", "C14"),
        ("BeeColony", "C09"), ("Firefly", "C09"), ("revolution works on a copy", "C01"), ("emperor's own cost", "C02"), ("CoralReef", "C18"),
        ("FoxOptimization re-init", "C08"), ("SuccessHistory", "C08"), ("WaterCycleOptimization re-init", "C08"), ("_generate_group_population", "C10"),
        ("NaN coordinate", "C05"), ("process mode every pooled", "C11"), ("HyperTuner ranks", "C19"), ("broadcasts `modes`", "C20"),
        ("export_results", "C20"), ("HenryGas", "C10"), ("EarlyStopping(patience=None)", "C06"), ("InvasiveWeedOptimization no longer", "C06"),
        ("AquilaOptimization no longer", "C06"), ("roulette_wheel_indexes", "C06"), ("random_selection", "C06"), ("WildebeestHerd", "C06"),
        ("QleSineCosine", "C06"), ("trend utilities", "C15"), ("VirusColonySearch", "C01")]
for ln in log:
    h, _, msg = ln.partition(" ")
    if not msg.startswith("fix:"):
        continue
    pid = next((p for pat, p in PROP if pat in msg), "C??")
    fixed.append(f"fixed: property={pid} {h} {msg[5:]}")
out = {"_comment": "Genuine defects of matteocacciola/pyvolutionary that are recorded rather than repaired (DESIGN.md section 7). Each entry is keyed by WHAT fails (clause + optimizer + exception + raising function / input class), never by the input that exposed it. The checks only read this file. 'fixed' entries suppress nothing.",
       "findings": findings, "fixed": fixed}
(ROOT / "known_findings.json").write_text(json.dumps(out, indent=1) + "\n")
print(len(findings), "findings,", len(fixed), "fixed")
