#!/venv/bin/python
"""Regenerates /verif/MANIFEST.json from the table below and validates it against the schema."""
import json, subprocess, sys
from pathlib import Path
ROOT = Path(__file__).resolve().parent.parent
PROPS = [json.loads(l)["id"] for l in open(ROOT / "properties.jsonl")]

# pid -> (category, technique, level text, level note, design ref)
MC = "model_checking"
TB = "Trusted: TLC 1.8; the projection alpha (harness/corpus.py, unit of trust for ids / ranks / membership classes); "
POPNOTE = TB + "the harness's own objective and membership oracles; tasks/configurations/seeds are sampled, the mechanism model is exhaustive. Known findings are keyed by optimizer + clause + site."
CLAIMS = {
 "C01": (MC, "TLC on PopMachine.tla (Feasible inductive for every raw candidate incl. out-of-range/NaN, every step kind) + TLC trace validation (TracePop.tla) of real runs of all 84 optimizers",
         "The design-level invariant Feasible is model-checked over all candidates/step kinds/directions with two deviation configs that must fail; every agent of every generation and best_solution of a seeded corpus of real runs (all optimizers, encodings, bound regimes, modes) is judged by TLC through membership classes computed from the task descriptor.",
         POPNOTE, "DESIGN.md 4.4, 6 C01"),
 "C02": (MC, "TLC on PopMachine.tla (CostTruth) and Domain.tla (PermConsistency) + TLC trace validation of real runs: cost = objective(position) on exact ranks, two oracles, decode oracle",
         "CostTruth is inductive in the run machine (sign handled at two points; stale-cost and sign-slip deviations fail); on real runs every reported cost is compared bit-exactly (on negation-preserving ranks) with the harness objective re-evaluated at the reported position, with the value observed during the run, and with the objective of the decoded solution; fitness formula is a numeric leaf.",
         POPNOTE, "DESIGN.md 4.4, 6 C02"),
 "C03": (MC, "TLC on PopMachine.tla (BestOK; wrong-end deviation fails) + TLC trace validation of best_solution against the last generation of real runs",
         "BestIsOptimum is checked for every final population of the bounded model (ties, both directions) and on every real run of the corpus: member of the last generation, nothing strictly better in the task's direction.",
         POPNOTE, "DESIGN.md 6 C03"),
 "C04": (MC, "TLC exhaustive on StopRule.tla (+ liveness) + every terminal behaviour replayed into the real optimize() through a scripted optimizer + TLC judge (TraceStop.tla); corpus runs judged with the same rule",
         "The code-shaped stop machine is checked against the declarative rule for ALL rate histories up to the bound (max_cycles<=4(5), 5 rate levels, fitness_error, patience 1..3, min_delta levels) incl. termination under fairness; each terminal behaviour is replayed bit-exactly (dyadic rates) into the real loop and judged; off-grid float histories go through the Boolean projection; five deviations fail.",
         TB + "rates on the grid are exact dyadic floats; rate=|1-mean fitness| recomputed by the harness (1e-12).", "DESIGN.md 4.3, 6 C04"),
 "C05": (MC, "TLC on PopMachine.tla (ArgsOK over every evaluation incl. discarded candidates; NaN-pass deviation fails) + TLC trace validation of every recorded objective call of real runs (serial/thread/process)",
         "Every argument the user's objective received during every corpus run (recorded in-process or through per-process O_APPEND logs) is classified against the task descriptor and judged by TLC; violations are keyed by optimizer, calling site and class.",
         POPNOTE, "DESIGN.md 6 C05"),
 "C06": ("exploration", "wide seeded exploration of (optimizer, task, configuration, mode) judged by the TLC run machine (a trace ending in a crash is not a behaviour); validation lattice replayed on call histories",
         "Seeded exploration: every failure of optimize() on a continuous task is a violation keyed by (optimizer, exception, raising function); on integer-coded tasks a (optimizer, encoding) pair must not fail in at least half of its runs (suspects are re-run with fresh inputs before the verdict). Invalid calls (no configuration, bad dictionaries) are covered by the Instance histories (C18).",
         "Input space sampled, not enumerated. The known-findings table was built from >400k surveyed runs; a crash key never seen before is reported as a violation.", "DESIGN.md 6 C06, 7"),
 "C07": (MC, "TLC on Instance.tla (RunFunctional over all call histories; stdlib-RNG and unseeded deviations fail) + histories replayed on the 84 real classes + reference runs in fresh interpreters + TLC judge (TraceInstance.tla)",
         "Reproducibility is the invariant 'result is a function of (configuration, task incl. seed)' over all interleavings of runs and RNG perturbations; the histories TLC enumerates are replayed on every class with the library's own integer Task.seed, compared (bit-exact digests) with runs made in freshly spawned interpreters.",
         TB + "digest = sha1 of repr of every position/cost/fitness/rate; 2 configurations x 2 tasks per class.", "DESIGN.md 4.6, 6 C07"),
 "C08": (MC, "TLC on Instance.tla (RunFunctional / ResultsImmutable across Optimize.Optimize; no-reset, private-leak, aliased-rates deviations fail) + histories replayed on the 84 real classes + TLC judge",
         "Every call history with 0..3 earlier runs (same / other task, other configuration, perturbations in between) up to the bound is generated by TLC; a covering subset + seeded sample (quick) or all of them (thorough) is replayed on every class and each run on a used instance is compared with a fresh-instance reference; earlier results must stay unchanged.",
         TB + "digests as for C07.", "DESIGN.md 4.6, 6 C08"),
 "C09": (MC, "TLC on Instance.tla (CallerUntouched action property; config-writing deviation fails) + TLC trace validation: model_dump digests of config and task before/after every corpus run (returning or raising)",
         "CallerUntouched is an action property of the life-cycle model; on every real run of the corpus and of the replayed histories the caller's configuration and task are dumped before and after and compared field by field.",
         POPNOTE, "DESIGN.md 6 C09"),
 "C10": (MC, "TLC on Select.tla (sizes of every primitive incl. groups + residual) and PopMachine.tla (SizeInv; drop-agent deviation fails) + TLC trace validation of every generation of real runs at 1x..3x scale",
         "Size conservation of the primitives is exhaustive in Select.tla (LawSizes, LawGroups with non-divisible sizes); every recorded generation of every corpus run is judged (exact for all but the three variable-size optimizers).",
         POPNOTE, "DESIGN.md 6 C10"),
 "C11": (MC, "TLC on Pool.tla (all interleavings of Submit/Start/Finish/Gather; forked-RNG, dropped and duplicated future deviations fail) + every gathering order forced on the real code through a controllable executor + real pools with injected delays judged by TLC (TracePool.tla)",
         "ExactlyOnce / NeverTwice / DistinctDraws / ScheduleIndependentSet hold for every interleaving of <=4(5) items on 3 workers; each order TLC reaches is forced on the real _generate_agents and _greedy_select_population; real thread and process pools (1..16 workers, seeded delays) are checked for multiset equality of evaluations and agents and pairwise distinct random points; pooled-mode corpus runs inherit the C01/C02/C03/C10 verdicts.",
         TB + "the OS scheduler is perturbed, not controlled, in the real-pool part; the forced-order part is exhaustive for 2..4 items.", "DESIGN.md 4.5, 6 C11"),
 "C12": (MC, "TLC on Dual.tla (two runs in lock-step; fitness-reading step and two sign deviations fail) + TLC judge (TraceDual.tla) of real (max f) / (min -f) pairs for the 83 fitness-free optimizers",
         "The duality is an invariant of the lock-step model for every step kind that compares internal costs; real pairs of runs with equal seed/configuration are compared generation by generation: identical positions, exactly negated costs (negation-preserving ranks).",
         TB + "pairs are sampled; the exclusion table (AntLion) is cross-checked by an AST scan.", "DESIGN.md 4.7, 6 C12"),
 "C13": (MC, "TLC exhaustive on Domain.tla + every enumerated (definition, value) replayed on the real variable classes + TLC judge (TraceDomain.tla) + seeded off-grid values",
         "The domain laws (into the domain, members fixed, idempotent, decode consistent, constructors reject invalid definitions) are relations checked on intended functional refinements for all definitions x probe values of the bounded grid (four deviations fail); the same cases are fed to the real classes and their answers judged by TLC; huge / subnormal / numpy-scalar / one-ulp values go through a Boolean projection.",
         TB + "value encoding x2 half-integers + sentinels; off-grid values sampled.", "DESIGN.md 4.1, 6 C13"),
 "C14": (MC, "TLC exhaustive on Domain.tla (task composition) + every enumerated variable list x position pattern replayed on the real Task + TLC judge",
         "Dimension, per-coordinate bounds, random / corrected solutions and transform_solution are judged for every list of 1..2 (3 in thorough) variables from a 13-entry palette covering all seven types, size-1 multi-variables and a single permutation, under 7 position patterns.",
         TB + "one known finding (permutation mixed with other variables) is listed.", "DESIGN.md 4.1, 6 C14"),
 "C15": (MC, "TLC on PopMachine.tla (HistoryAppendOnly = IsPrefix action property, HistoryFaithful; in-place mutation deviation fails) + TLC trace validation: independent per-cycle deep snapshots vs result.evolution; trend utilities judged with SelectRel",
         "History fidelity is an action property of the run machine; on real runs every generation of the returned history is compared by TLC with a deep snapshot taken right after its cycle. The trend utilities are judged against 'idx-th best in the task's direction' for every result of the corpus.",
         POPNOTE, "DESIGN.md 6 C15"),
 "C16": (MC, "TLC exhaustive on Select.tla + TLC-generated cases replayed into the real helpers + TLC trace judge (TraceSelect.tla)",
         "TLC checks the code-shaped functional refinement of every selection helper / replacement primitive against the relational laws for every population of the bounded space (sizes 1..5(6), 5(4)-letter cost alphabet with ties, negatives, +-inf, all n, both directions, groups with residual); the same states are dumped, fed to the real helpers, and the answers judged by TLC with the same relations; four deviation configs and corrupted-record canaries show the laws bind.",
         TB + "agents are identified by a tag in their position; larger populations are sampled. NaN costs excluded.", "DESIGN.md 4.2, 6 C16"),
 "C17": (MC, "TLC on PopMachine.tla (ElitistMonotone action property for elitist step kinds; inverted-comparison deviation fails) + TLC trace validation of consecutive generations of real runs of the optimizers classified structurally elitist",
         "Monotonicity of the best internal cost is an action property for greedy / greedy-population / extend-and-trim steps; on real runs of the 63 optimizers claimed elitist every consecutive pair of snapshots and best_solution (best ever recorded) are judged, min and max.",
         POPNOTE + " The elitism table is conservative (DESIGN.md Appendix A).", "DESIGN.md 6 C17"),
 "C18": (MC, "TLC on Instance.tla (CanConstructEmpty, NoConfigRefuses, SetConfigEquals, SetConfigRunEquals; constructor-deref and cached-at-construction deviations fail) + histories replayed on the 84 real classes + TLC judge",
         "Construct(None) / Optimize-without-config / SetConfig(valid | out-of-range) / run-equivalence histories generated by TLC are replayed on every exported class; configuration equality and bit-exact run digests are judged by TLC.",
         TB + "out-of-range dictionaries are found per class by probing the config model.", "DESIGN.md 6 C18"),
 "C19": (MC, "TLC exhaustive on HyperTuner.tla (ParameterGrid laws + selection rule) + every grid / score table replayed on the real ParameterGrid / HyperTuner with a scripted optimizer + TLC judge (TraceTuner.tla)",
         "len / iteration / indexing agreement for all grids of 1..2 sub-grids x 0..3 keys x 1..3 values; optimality of best_parameters, best_score, every point once per trial with its own parameters and resolve() for score tables (<=3 points x 2 trials, ties, both directions) run through the real process pool of the tuner.",
         TB + "the scripted optimizer hands out trial slots through O_EXCL files; best_score compared within 1e-12.", "DESIGN.md 4.8, 6 C19"),
 "C20": (MC, "TLC exhaustive on Multitask.tla (broadcasting of `modes`) + generated (n, m, modes) cases run on the real Multitask with scripted optimizers/tasks + TLC judge (TraceMulti.tla)",
         "Acceptance/rejection and the mode table for n, m in 1..3 and every tuple of 0..9 mode values (3.1M cases) in the model; the real Multitask is run on a covering sample (all of the valid-shape cases in thorough): every pair x n_trials, designated mode, workers, table shapes, export layout for all three formats.",
         TB + "algorithms/tasks are scripted classes logging through O_APPEND files.", "DESIGN.md 4.8, 6 C20"),
}
NOT_YET = "check not built yet in this round (work in progress; see DESIGN.md §10 plan)"

def main():
    checks = []
    for pid in PROPS:
        if pid not in CLAIMS:
            continue
        cat, tech, text, note, ref = CLAIMS[pid]
        checks.append({
            "property_id": pid,
            "quick_cmd": f"./check {pid} --tier quick",
            "thorough_cmd": f"./check {pid} --tier thorough",
            "evidence_file": f"/verif/evidence/{pid}.json",
            "replay_cmd_template": f"./check {pid} --replay {{path}}",
            "engine": "tlc-harness",
            "level_claimed": {"category": cat, "text": text, "design_ref": ref},
            "level_note": note,
            "technique": tech,
        })
    m = {
        "version": 1,
        "setup_cmd": "./setup.sh",
        "hooks": {
            "guard": "PYVOLUTIONARY_VERIF",
            "enable": "no hook is needed: the harness observes through traced subclasses, recording tasks and model_dump digests (PYVOLUTIONARY_VERIF is reserved and unused)",
            "baseline_off_cmd": "cd /repo && /venv/bin/python -m pytest -ra -q -p no:cacheprovider --timeout=900 --continue-on-collection-errors",
            "source_commits": [],
            "add_only": True,
        },
        "engines": [{"name": "tlc-harness", "path": "/verif/check", "serves_properties": [c["property_id"] for c in checks],
                     "kind_free_text": "explicit TLA+ specification (spec/*.tla) model-checked by TLC; TLC-generated cases replayed into the real code; real traces judged by TLC trace specifications"}],
        "checks": checks,
        "notes": "See DESIGN.md. Exit codes: 0 held, 1 violation (VIOLATION line), 2 machinery failure.",
        "not_applicable": [{"property_id": p, "reason": NOT_YET} for p in PROPS if p not in CLAIMS],
    }
    (ROOT / "MANIFEST.json").write_text(json.dumps(m, indent=1) + "\n")
    try:
        import jsonschema
        jsonschema.validate(m, json.load(open("/root/.vp/MANIFEST.schema.json")))
        print("MANIFEST.json valid;", len(checks), "checks")
    except ImportError:
        print("jsonschema not importable here; run with python3-vt to validate")

if __name__ == "__main__":
    main()
