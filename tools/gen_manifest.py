#!/venv/bin/python
"""Regenerates /verif/MANIFEST.json from the table below and validates it against the schema."""
import json, subprocess, sys
from pathlib import Path
ROOT = Path(__file__).resolve().parent.parent
PROPS = [json.loads(l)["id"] for l in open(ROOT / "properties.jsonl")]

# pid -> (category, technique, level text, level note, design ref)
CLAIMS = {
 "C16": ("model_checking",
         "TLC exhaustive on Select.tla + TLC-generated cases replayed into the real helpers + TLC trace judge (TraceSelect.tla)",
         "TLC checks the code-shaped functional refinement of every selection helper / replacement primitive against the "
         "relational laws for every population of the bounded space (sizes 1..5(6), 5(4)-letter cost alphabet with ties, "
         "negatives, +-inf, all n, both directions); the same states are dumped, fed to the real helpers, and the answers "
         "are judged by TLC with the same relations; three deviation configs and corrupted-record canaries show the laws bind.",
         "Trusted: TLC; the index tagging of agents; larger populations are sampled. NaN costs excluded.",
         "DESIGN.md §4.2, §6 C16"),
}
NOT_YET = "check not built yet in this round (work in progress; see DESIGN.md §10 plan)"

def main():
    checks = []
    for pid in PROPS:
        if pid not in CLAIMS:
            continue
        cat, tech, text, note, ref = CLAIMS[pid]
        checks.append({
            "property_id": pid,
            "quick_cmd": f"./check {pid} --tier quick",
            "thorough_cmd": f"./check {pid} --tier thorough",
            "evidence_file": f"/verif/evidence/{pid}.json",
            "replay_cmd_template": f"./check {pid} --replay {{path}}",
            "engine": "tlc-harness",
            "level_claimed": {"category": cat, "text": text, "design_ref": ref},
            "level_note": note,
            "technique": tech,
        })
    m = {
        "version": 1,
        "setup_cmd": "./setup.sh",
        "hooks": {
            "guard": "PYVOLUTIONARY_VERIF",
            "enable": "no hook is needed: the harness observes through traced subclasses, recording tasks and model_dump digests (PYVOLUTIONARY_VERIF is reserved and unused)",
            "baseline_off_cmd": "cd /repo && /venv/bin/python -m pytest -ra -q -p no:cacheprovider --timeout=900 --continue-on-collection-errors",
            "source_commits": [],
            "add_only": True,
        },
        "engines": [{"name": "tlc-harness", "path": "/verif/check", "serves_properties": [c["property_id"] for c in checks],
                     "kind_free_text": "explicit TLA+ specification (spec/*.tla) model-checked by TLC; TLC-generated cases replayed into the real code; real traces judged by TLC trace specifications"}],
        "checks": checks,
        "notes": "See DESIGN.md. Exit codes: 0 held, 1 violation (VIOLATION line), 2 machinery failure.",
        "not_applicable": [{"property_id": p, "reason": NOT_YET} for p in PROPS if p not in CLAIMS],
    }
    (ROOT / "MANIFEST.json").write_text(json.dumps(m, indent=1) + "\n")
    try:
        import jsonschema
        jsonschema.validate(m, json.load(open("/root/.vp/MANIFEST.schema.json")))
        print("MANIFEST.json valid;", len(checks), "checks")
    except ImportError:
        print("jsonschema not importable here; run with python3-vt to validate")

if __name__ == "__main__":
    main()
