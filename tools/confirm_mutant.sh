#!/bin/bash
# usage: confirm_mutant.sh <ID> <outdir>  - confirms a seeded change in a scratch git worktree of /repo (outside /repo and /verif):
#   patch applies; demo exits non-zero with it and 0 without it; the existing tests pass with it
id=$1; src=$2
wt=/var/tmp/pv-confirm-$id
git -C /repo worktree add -q --detach $wt HEAD || exit 3
cd $wt
res="applies=no"
if git apply --check $src/patch.diff 2>/dev/null; then
  res="applies=yes"
  PYTHONPATH=$wt timeout 900 /venv/bin/python $src/demo.py > /dev/null 2>&1; res="$res demo_without=$?"
  git apply $src/patch.diff
  PYTHONPATH=$wt timeout 900 /venv/bin/python $src/demo.py > /dev/null 2>&1; res="$res demo_with=$?"
  files=$(git diff --name-only | tr '\n' ' ')
  if echo "$files" | grep -q "abstract.py\|helpers.py\|models.py\|utils.py"; then
     sel="tests"; desel="--deselect tests/test_early_stopping.py::test_fitness_error"
  else
     sel="tests/test_combinatorial_problem.py tests/test_constrained_problem.py tests/test_continuous_multivariable_optimization.py tests/test_multiobjective_problem.py tests/test_no_configuration.py tests/test_optimization_max.py tests/test_task_bounds.py tests/test_utils.py tests/test_early_stopping.py"
     desel="--deselect tests/test_early_stopping.py::test_fitness_error"
     for f in $files; do d=$(basename $(dirname $f)); t=$(ls tests/algorithms/test_${d}*.py 2>/dev/null | head -1); [ -n "$t" ] && sel="$sel $t"; done
     echo "$files" | grep -q hypertuner && sel="$sel tests/test_hypertuner.py"
  fi
  out=$(nice -n 5 timeout 3000 /venv/bin/python -m pytest -q -p no:cacheprovider --timeout=900 $desel $sel 2>&1 | tail -1)
  res="$res tests=[$out] files=[$files]"
fi
cd /; git -C /repo worktree remove --force $wt
echo "$id $res"
