#!/venv/bin/python
"""Wide survey of the run corpus: prints every distinct violation key (used to build known_findings.json)."""
import collections, json, sys, time
sys.path.insert(0, "/verif" if __name__ != "__main__" else str(__import__("pathlib").Path(__file__).resolve().parent.parent))
from harness import corpus, popchecks
tier = sys.argv[1] if len(sys.argv) > 1 else "thorough"
seeds = [int(s) for s in sys.argv[2:]] or [0]
keys = collections.Counter()
pairs = collections.defaultdict(lambda: [0, 0, collections.Counter()])
for seed in seeds:
    t = time.time()
    v = corpus.corpus(tier, seed)
    recs = {r["id"]: r for r in v["records"]}
    before = len(keys)
    for i, cl in v["bad"]:
        r = recs[i]
        if cl == "C06.crash" and r["encoding"] not in popchecks.CONT_ENC:
            continue
        for k in popchecks.explain(r, cl):
            keys[(cl, json.dumps(k, sort_keys=True))] += 1
    for k, e in popchecks.int_pairs(v["records"]).items():
        pairs[k][0] += e[0]; pairs[k][1] += e[1]; pairs[k][2].update(e[2])
    print(f"# seed {seed}: {len(recs)} runs, {len(v['bad'])} verdicts, {len(keys) - before} new keys (total {len(keys)}), {time.time()-t:.0f}s", flush=True)
for (cl, k), n in sorted(keys.items()):
    print(n, cl, k)
print("# integer-coded pairs failing in at least half of their runs")
for (o, e), x in sorted(pairs.items()):
    if x[1] * 2 >= x[0] and x[1]:
        print("PAIR", o, e, f"{x[1]}/{x[0]}", x[2].most_common(2))
print("# integer-coded pairs failing sometimes")
for (o, e), x in sorted(pairs.items()):
    if x[1] * 2 < x[0] and x[1]:
        print("RARE", o, e, f"{x[1]}/{x[0]}", x[2].most_common(2))
