#!/venv/bin/python
"""Mutation self-test (not a registered check): applies every seeded change under /verif/seeded to a scratch copy of /repo
and runs the check of the property it breaks; a change must be reported (exit 1).  Reverse-fix patches are applied with -R.
usage: tools/selftest_seeded.py [name-substring ...]        (takes a long time: one check run per seeded change)
"""
import json, subprocess, sys
from pathlib import Path
ROOT = Path(__file__).resolve().parent.parent
REV = {"0601d12": "C07", "5cd97c7": "C08", "72232ff": "C07", "b2a6c03": "C06", "5488476": "C13", "fb79cd8": "C13", "e6a0000": "C14",
       "a1aa2f4": "C14", "86510d8": "C09", "b4c59b8": "C09", "221c312": "C01", "f947dd6": "C02", "2040e93": "C18", "d7e113b": "C08",
       "59396b3": "C08", "fc15232": "C08", "4ccf729": "C10", "770540a": "C05", "a27247f": "C11", "09b58a9": "C19", "40c2088": "C20",
       "5b9db84": "C20", "58621b1": "C10", "b4e3172": "C15", "da65ae4": "C06", "10439ea": "C06", "78e7877": "C06", "1d98faa": "C06",
       "4636fe8": "C06", "0f20190": "C06"}      # 99d2244 (random_selection) is too rare for the quick tier: ~1 run in 10^4
EXPECT_MISS = {"C05-agent3", "C20-agent6", "C07-agent6"}        # documented as out of reach (DESIGN.md 11.4)
PROBABILISTIC = {"C17-agent6"}      # rare branch on the best agent: ~50 % at the quick tier, practically certain at the thorough tier
want = sys.argv[1:]
jobs = []
for d in sorted((ROOT / "seeded").iterdir()):
    if d.name == "revfix":
        for h, pid in REV.items():
            jobs.append((f"revfix/{h}", d / f"{h}.diff", pid, True))
    elif (d / "patch.diff").exists():
        pid = json.load(open(d / "meta.json"))["property"]
        patch = d / ("patch_ported.diff" if (d / "patch_ported.diff").exists() else "patch.diff")
        jobs.append((d.name, patch, pid, False))
ok = bad = 0
for name, patch, pid, rev in jobs:
    if want and not any(w in name for w in want):
        continue
    p = subprocess.run([str(ROOT / "tools" / "mutant.py")] + (["--reverse"] if rev else []) + [str(patch), pid], capture_output=True, text=True)
    line = (p.stdout.strip().splitlines() or ["(no output)"])[-1]
    caught = f"{pid} exit=1" in line
    verdict = "caught" if caught else ("missed (expected)" if name in EXPECT_MISS else "missed (probabilistic)" if name in PROBABILISTIC else "MISSED")
    ok += caught or name in EXPECT_MISS or name in PROBABILISTIC
    bad += (not caught) and name not in EXPECT_MISS and name not in PROBABILISTIC
    print(f"{name:22s} {pid} {verdict:18s} {line[:160]}", flush=True)
print(f"{ok} as expected, {bad} unexpected")
sys.exit(1 if bad else 0)
