#!/bin/bash
# runs every check of the given tier once, one summary line each
tier=${1:-quick}; shift
ids=${@:-C01 C02 C03 C04 C05 C06 C07 C08 C09 C10 C11 C12 C13 C14 C15 C16 C17 C18 C19 C20}
cd "$(dirname "$0")/.."
for p in $ids; do
  s=$(date +%s)
  out=$(./check $p --tier $tier 2>&1); rc=$?
  echo "$p rc=$rc $(( $(date +%s) - s ))s :: $(echo "$out" | grep -v '^KNOWN-FINDING' | tail -2 | cut -c1-300 | tr '\n' ' ')"
done
