#!/venv/bin/python
"""Apply a patch to a scratch copy of /repo (never to /repo itself) and run the given checks against it.
usage: tools/mutant.py [--reverse] <patch.diff> <PID> [<PID> ...]      prints one line per check: PID exit=<rc> <violation keys>
"""
import os, re, shutil, subprocess, sys, tempfile
from pathlib import Path
ROOT = Path(__file__).resolve().parent.parent
args = sys.argv[1:]
rev = "--reverse" in args
args = [a for a in args if a != "--reverse"]
patch, pids = Path(args[0]).resolve(), args[1:]
scratch = Path(tempfile.mkdtemp(prefix="pv-scratch-", dir="/var/tmp"))
try:
    shutil.copytree("/repo/pyvolutionary", scratch / "pyvolutionary")
    shutil.copytree("/repo/tests", scratch / "tests")
    r = subprocess.run(["patch", "-p1", "-s"] + (["-R"] if rev else []) + ["-i", str(patch)], cwd=scratch, capture_output=True, text=True)
    if r.returncode != 0:
        print("PATCH FAILED", r.stdout[-500:], r.stderr[-500:])
        sys.exit(3)
    for pid in pids:
        env = dict(os.environ, VERIF_REPO=str(scratch), VERIF_WORK=str(scratch / ".work"))
        p = subprocess.run([str(ROOT / "check"), pid], env=env, capture_output=True, text=True, cwd=ROOT)
        keys = re.findall(r"VIOLATION property=\S+ replay=\S+\s+# (\{.*?\}) x(\d+)", p.stdout)
        mach = [ln for ln in p.stderr.splitlines() if ln.startswith("MACHINERY")]
        print(f"{pid} exit={p.returncode} violations={len(keys)} " + " | ".join(f"{k} x{n}" for k, n in keys[:4]) + (f"  MACHINERY: {mach[0][:200]}" if mach else ""), flush=True)
finally:
    shutil.rmtree(scratch, ignore_errors=True)
